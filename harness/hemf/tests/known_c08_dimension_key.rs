//! Native reproduction of the recorded C08 finding (known_findings.txt, DESIGN.md section 5); run by `./check C08`
//! with the ordinary toolchain against /repo's working tree. Split records cannot be executed under CBMC, so this
//! finding - found by reading - has no solver-side detector; the test only REPORTS what it sees (it never fails):
//! the driver prints the KNOWN-FINDING line iff the marker below says the defect is still there.
//! Same scenario as /verif/findings/c08_dimension_key_collides.rs.
use metrique_writer_core::format::Format;
use metrique_writer_core::{Entry, EntryWriter, MetricFlags, Observation, Unit, Value, ValueWriter};
use metrique_writer_format_emf::{AllowSplitEntries, Emf};
use std::time::SystemTime;

struct M;
impl Value for M {
    fn write(&self, w: impl ValueWriter) {
        w.metric([Observation::Unsigned(7)], Unit::None, [("D", "v")], MetricFlags::empty())
    }
}
struct E;
impl Entry for E {
    fn write<'a>(&'a self, w: &mut impl EntryWriter<'a>) {
        w.timestamp(SystemTime::UNIX_EPOCH);
        w.config(&const { AllowSplitEntries::new() });
        w.value("D", "s");
        w.value("A", &M);
    }
}

#[test]
fn dimension_key_equal_to_string_property() {
    let mut emf = Emf::all_validations("Ns".into(), vec![vec![]]);
    let mut out = Vec::new();
    let r = emf.format(&E, &mut out);
    let text = String::from_utf8_lossy(&out).to_string();
    let dup = r.is_ok() && text.lines().any(|l| l.matches("\"D\":").count() > 1);
    println!("FINDING-{} c08_dimension_key accepted={} output={}", if dup { "REPRODUCED" } else { "ABSENT" }, r.is_ok(), text.trim_end());
}
