#![allow(dead_code, unused_imports, unexpected_cfgs, static_mut_refs)]
#![cfg_attr(kani, feature(allocator_api))]
#![recursion_limit = "512"]
#[cfg(kani)]
pub mod stubs;
#[cfg(kani)]
pub mod c12;
#[cfg(kani)]
pub mod kernel;
#[cfg(kani)]
pub mod c02;
#[cfg(kani)]
pub mod lists;
#[cfg(kani)]
pub mod c03;
#[cfg(kani)]
pub mod c08;
#[cfg(kani)]
pub mod c14;
#[cfg(kani)]
pub mod c16;
#[cfg(kani)]
pub mod full;

// written by /verif/check into a scratch copy of this crate when a counterexample is replayed natively
#[cfg(all(kani, verif_playback))]
mod playback_gen;
