//! C08 (narrow) — every documented way of enabling validations really enables them, in every build profile; name
//! validation rejects exactly the empty and the reserved name.
//!
//! The bulk of C08 (duplicate / dimension checks) lives in a hashbrown map and is outside what CBMC can decide
//! here: any program that merely constructs a `hashbrown::HashMap` (so any `Emf` value) does not get past CBMC's
//! instrumentation phase (measured: > 15 min, > 14 GB). `Emf::all_validations` itself is therefore checked by the
//! MIR-level dataflow query in /verif/mirsmt (see DESIGN.md C08), not here.
use metrique_writer_format_emf::Emf;
use metrique_writer_format_emf::verif_hooks as hooks;

/// `format!` is used by `EmfBuilder::build` once, to assemble the constant prefix for the first namespace; the
/// validation switches do not depend on it. The stub returns that prefix for namespace "N".
pub fn fmt_format_prefix(_args: core::fmt::Arguments<'_>) -> String {
    String::from(r#"{"_aws":{"CloudWatchMetrics":[{"Namespace":"N","Dimensions":["#)
}

fn switches_after_all_validations() {
    let emf = Emf::all_validations(String::from("N"), vec![vec![]]);
    let (unique, dims, names) = hooks::validation_switches(&emf);
    kani::cover!(true, "constructor returns");
    assert!(unique, "all_validations enables the duplicate-name validation");
    assert!(dims, "all_validations enables the dimension-existence validation");
    assert!(names, "all_validations enables the name validation");
    core::mem::forget(emf);
}

// @check C08 quick timeout=1800 mem=24
// @encodes Emf::all_validations, Emf::builder, EmfBuilder::build (real, with hashbrown -> in-repo model)
// @bounds dev profile semantics (debug assertions ON); namespace "N", one empty dimension set
// @oracle all three validation switches are on
// @stubs alloc::fmt::format (returns the constant prefix build() assembles for namespace "N"); hashbrown -> kani_hashbrown model
#[kani::proof]
#[kani::unwind(4)]
#[kani::stub(alloc::fmt::format, crate::c08::fmt_format_prefix)]
pub fn all_validations_enables_everything_debug() {
    switches_after_all_validations()
}

// @check C08 quick timeout=1800 mem=24 env=CARGO_PROFILE_DEV_DEBUG_ASSERTIONS=false
// @encodes Emf::all_validations, Emf::builder (cfg(not(debug_assertions)) arm), EmfBuilder::build
// @bounds RELEASE profile semantics: the crates are compiled with debug assertions OFF (cargo profile override), which selects the builder's skip-all default
// @oracle all three validation switches are on after Emf::all_validations (the documented way to turn every validation on)
// @stubs alloc::fmt::format (constant prefix); hashbrown -> kani_hashbrown model
#[kani::proof]
#[kani::unwind(4)]
#[kani::stub(alloc::fmt::format, crate::c08::fmt_format_prefix)]
pub fn all_validations_enables_everything_release() {
    assert!(!cfg!(debug_assertions), "this harness must be compiled without debug assertions");
    switches_after_all_validations()
}

fn builder_switches(skip: bool) {
    let b = Emf::builder(String::from("N"), vec![vec![]]).skip_all_validations(skip);
    let (unique, dims, names) = hooks::builder_validation_switches(&b);
    if skip {
        assert!(!unique && !dims && !names, "skip_all_validations(true) turns everything off");
    } else if cfg!(debug_assertions) {
        assert!(unique && dims && names, "builder default in debug builds: everything on");
    } else {
        assert!(!unique && !dims && !names, "documented builder default without debug assertions: validations off");
    }
    core::mem::forget(b);
}

// @check C08 quick timeout=600 mem=14
// @encodes Emf::builder, EmfBuilder::skip_all_validations
// @bounds skip flag symbolic; debug profile
// @oracle the three switches move together: all off after skip(true); builder default as documented for the profile
#[kani::proof]
#[kani::unwind(4)]
pub fn builder_switches_move_together_debug() {
    let skip: bool = kani::any();
    kani::cover!(skip, "skip requested");
    builder_switches(skip)
}

// @check C08 quick timeout=600 mem=14 env=CARGO_PROFILE_DEV_DEBUG_ASSERTIONS=false
// @encodes Emf::builder (release arm), EmfBuilder::skip_all_validations
// @bounds skip flag symbolic; release profile semantics (debug assertions off)
// @oracle same as builder_switches_move_together_debug
#[kani::proof]
#[kani::unwind(4)]
pub fn builder_switches_move_together_release() {
    let skip: bool = kani::any();
    kani::cover!(!skip, "skip not requested");
    builder_switches(skip)
}

// ------------------------------------------------------------------ validation kernel (EntryWriter up to finish())
use crate::c02::emf_harness;
use metrique_writer_core::{Entry, EntryWriter, MetricFlags, Observation, Unit, Value, ValueWriter};
use std::time::{Duration, SystemTime};

const NAMES: [&str; 4] = ["A", "B", "_aws", ""];

#[derive(Clone, Copy)]
struct Item {
    metric: bool,
    name: u8,
    v: u64,
}
struct V(Item);
impl Value for V {
    fn write(&self, w: impl ValueWriter) {
        if self.0.metric {
            w.metric([Observation::Unsigned(self.0.v)], Unit::None, [], MetricFlags::empty())
        } else {
            w.string("s")
        }
    }
}
struct Scripted {
    items: [Item; 2],
    n: usize,
    timestamps: u8,
}
impl Entry for Scripted {
    fn write<'a>(&'a self, w: &mut impl EntryWriter<'a>) {
        let mut t = 0;
        while t < self.timestamps {
            w.timestamp(SystemTime::UNIX_EPOCH + Duration::from_millis(7));
            t += 1;
        }
        let mut i = 0;
        while i < self.n {
            w.value(NAMES[self.items[i].name as usize], &V(self.items[i]));
            i += 1;
        }
    }
}
fn any_item() -> Item {
    let it = Item { metric: kani::any(), name: kani::any(), v: kani::any() };
    kani::assume(it.name < 4);
    it
}

/// reference: is this entry malformed in one of the ways the formatter must reject (as far as the
/// EntryWriter sees it before finish())?
fn malformed(e: &Scripted, dimension_a: bool) -> bool {
    let mut bad = e.timestamps > 1;
    let mut i = 0;
    while i < e.n {
        let it = e.items[i];
        if it.name >= 2 {
            bad = true; // reserved `_aws` or empty name
        }
        if dimension_a && it.name == 0 && it.metric {
            bad = true; // a metric written under a dimension name
        }
        i += 1;
    }
    if e.n == 2 && e.items[0].name == e.items[1].name && e.items[0].name < 2 {
        bad = true; // two values under one name
    }
    bad
}

/// The entry shape is case-split into separate harnesses (names and value kinds concrete per harness, payloads and the
/// validation switch symbolic): a solver-chosen name makes every `json_string` call run over a symbolic string and
/// the all-in-one version exhausted 24 GB.
fn validation_kernel(dimension_a: bool, n: usize, i0: (u8, bool), i1: (u8, bool), timestamps: Option<u8>) {
    let e = Scripted {
        items: [Item { metric: i0.1, name: i0.0, v: kani::any() }, Item { metric: i1.1, name: i1.0, v: kani::any() }],
        n,
        timestamps: match timestamps {
            Some(t) => t,
            None => {
                let t: u8 = kani::any();
                kani::assume(t <= 2);
                t
            }
        },
    };
    let validate: bool = kani::any();
    let mut emf = hooks::emf_small(validate, dimension_a);
    let rejected = hooks::write_entry_without_finish(&mut emf, &e, None);
    let bad = malformed(&e, dimension_a);
    kani::cover!(validate, "validations on");
    kani::cover!(!validate, "validations off");
    if validate {
        assert!(rejected == bad, "with validations on: rejected exactly when malformed");
    } else {
        // without validations only the always-on checks remain (more than one timestamp)
        assert!(rejected == (e.timestamps > 1), "validations off: nothing but the timestamp rule is enforced");
    }
    core::mem::forget(emf);
}

macro_rules! kernel_harness {
    ($($name:ident: $dim:expr, $n:expr, $i0:expr, $i1:expr, $ts:expr;)*) => { $(
        emf_harness! {
        #[kani::unwind(6)]
        pub fn $name() {
            validation_kernel($dim, $n, $i0, $i1, $ts)
        }
        }
    )* };
}

// @check C08 quick filter=c08::kernel:: timeout=900 mem=20
// @encodes Emf::format_with_multiplicity up to finish() (verif_hooks::write_entry_without_finish builds the same EntryWriter), EntryWriter::{timestamp, value, validate_name}, ValueWriter::{string, metric, validate_string}, write_metric, ValidationErrorBuilder
// @bounds formatter for namespace "N" with dimension sets [[]]; one harness per entry shape: one string value named A / _aws / empty; 0..=2 timestamps (symbolic); validations on or off symbolic in every harness
// @oracle validations on: a validation error is recorded exactly when the entry writes an empty or reserved name or more than one timestamp; validations off: only the multiple-timestamp rule
// @stubs hashbrown -> in-repo Vec-backed model (kani_hashbrown.rs); tracing x4, Instant::now, alloc::fmt::format, String::push/push_str/shrink_to, Vec::extend_from_slice, itoa/dtoa recording stubs; Emf built by verif_hooks::emf_small (the constants build() computes for this configuration)
// @outside finish(): the missing-dimension sweep, 'writes nothing on error', byte-identical output with validations off; entry-dimension configuration; split-mode checks; the five buffer clears at the top of format_with_multiplicity (replicated, not executed, by the hook)
pub mod kernel {
    use super::*;
    const S: bool = false; // string value
    const M: bool = true; // metric value
    // Registered: the shapes CBMC decides. The other shapes written for this kernel (a metric value, two values -
    // i.e. duplicate detection -, a configured dimension) all end in "out of memory during propositional reduction"
    // at 30 GB although the program has only ~150 k steps; see DESIGN.md C08.
    kernel_harness! {
        timestamps: false, 0, (0, S), (0, S), None;
        one_a_string: false, 1, (0, S), (0, S), Some(1);
        one_reserved_string: false, 1, (2, S), (0, S), Some(1);
        one_empty_string: false, 1, (3, S), (0, S), Some(1);
    }
}
