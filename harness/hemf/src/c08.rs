//! C08 (narrow) — every documented way of enabling validations really enables them, in every build profile; name
//! validation rejects exactly the empty and the reserved name.
//!
//! The bulk of C08 (duplicate / dimension checks) lives in a hashbrown map and is outside what CBMC can decide
//! here: any program that merely constructs a `hashbrown::HashMap` (so any `Emf` value) does not get past CBMC's
//! instrumentation phase (measured: > 15 min, > 14 GB). `Emf::all_validations` itself is therefore checked by the
//! MIR-level dataflow query in /verif/mirsmt (see DESIGN.md C08), not here.
use metrique_writer_format_emf::Emf;
use metrique_writer_format_emf::verif_hooks as hooks;

fn builder_switches(skip: bool) {
    let b = Emf::builder(String::from("N"), vec![vec![]]).skip_all_validations(skip);
    let (unique, dims, names) = hooks::builder_validation_switches(&b);
    if skip {
        assert!(!unique && !dims && !names, "skip_all_validations(true) turns everything off");
    } else if cfg!(debug_assertions) {
        assert!(unique && dims && names, "builder default in debug builds: everything on");
    } else {
        assert!(!unique && !dims && !names, "documented builder default without debug assertions: validations off");
    }
    core::mem::forget(b);
}

// @check C08 quick timeout=600 mem=14
// @encodes Emf::builder, EmfBuilder::skip_all_validations
// @bounds skip flag symbolic; debug profile
// @oracle the three switches move together: all off after skip(true); builder default as documented for the profile
#[kani::proof]
#[kani::unwind(4)]
pub fn builder_switches_move_together_debug() {
    let skip: bool = kani::any();
    kani::cover!(skip, "skip requested");
    builder_switches(skip)
}

// @check C08 quick timeout=600 mem=14 env=CARGO_PROFILE_DEV_DEBUG_ASSERTIONS=false
// @encodes Emf::builder (release arm), EmfBuilder::skip_all_validations
// @bounds skip flag symbolic; release profile semantics (debug assertions off)
// @oracle same as builder_switches_move_together_debug
#[kani::proof]
#[kani::unwind(4)]
pub fn builder_switches_move_together_release() {
    let skip: bool = kani::any();
    kani::cover!(!skip, "skip not requested");
    builder_switches(skip)
}

// ------------------------------------------------------------------ validation kernel (EntryWriter up to finish())
use crate::c02::emf_harness;
use metrique_writer_core::{Entry, EntryWriter, MetricFlags, Observation, Unit, Value, ValueWriter};
use std::time::{Duration, SystemTime};

const NAMES: [&str; 4] = ["A", "B", "_aws", ""];

#[derive(Clone, Copy)]
struct Item {
    metric: bool,
    name: u8,
    v: u64,
}
struct V(Item);
impl Value for V {
    fn write(&self, w: impl ValueWriter) {
        if self.0.metric {
            w.metric([Observation::Unsigned(self.0.v)], Unit::None, [], MetricFlags::empty())
        } else {
            w.string("s")
        }
    }
}
struct Scripted {
    items: [Item; 2],
    n: usize,
    timestamps: u8,
}
impl Entry for Scripted {
    fn write<'a>(&'a self, w: &mut impl EntryWriter<'a>) {
        let mut t = 0;
        while t < self.timestamps {
            w.timestamp(SystemTime::UNIX_EPOCH + Duration::from_millis(7));
            t += 1;
        }
        let mut i = 0;
        while i < self.n {
            w.value(NAMES[self.items[i].name as usize], &V(self.items[i]));
            i += 1;
        }
    }
}
fn any_item() -> Item {
    let it = Item { metric: kani::any(), name: kani::any(), v: kani::any() };
    kani::assume(it.name < 4);
    it
}

/// reference: is this entry malformed in one of the ways the formatter must reject (as far as the
/// EntryWriter sees it before finish())?
fn malformed(e: &Scripted, dimension_a: bool) -> bool {
    let mut bad = e.timestamps > 1;
    let mut i = 0;
    while i < e.n {
        let it = e.items[i];
        if it.name >= 2 {
            bad = true; // reserved `_aws` or empty name
        }
        if dimension_a && it.name == 0 && it.metric {
            bad = true; // a metric written under a dimension name
        }
        i += 1;
    }
    if e.n == 2 && e.items[0].name == e.items[1].name && e.items[0].name < 2 {
        bad = true; // two values under one name
    }
    bad
}

fn validation_kernel(dimension_a: bool) {
    let e = Scripted { items: [any_item(), any_item()], n: kani::any(), timestamps: kani::any() };
    kani::assume(e.n <= 2 && e.timestamps <= 2);
    let validate: bool = kani::any();
    let mut emf = hooks::emf_small(validate, dimension_a);
    let rejected = hooks::write_entry_without_finish(&mut emf, &e, None);
    let bad = malformed(&e, dimension_a);
    kani::cover!(validate && bad && e.n == 2 && e.items[0].name == e.items[1].name, "duplicate name under validation");
    kani::cover!(validate && !bad && e.n == 2, "valid two-value entry under validation");
    if validate {
        assert!(rejected == bad, "with validations on: rejected exactly when malformed");
    } else {
        // without validations only the always-on checks remain (more than one timestamp)
        assert!(rejected == (e.timestamps > 1), "validations off: nothing but the timestamp rule is enforced");
    }
    core::mem::forget(emf);
}

emf_harness! {
// @check C08 quick timeout=1800 mem=20
// @encodes Emf::format_with_multiplicity up to finish() (verif_hooks::write_entry_without_finish builds the same EntryWriter), EntryWriter::{timestamp, value, validate_name}, ValueWriter::{string, metric, validate_string}, write_metric, ValidationErrorBuilder
// @bounds formatter for namespace "N" with dimension sets [[]]; validations on or off (symbolic); entry = 0..=2 timestamps and 0..=2 values, each a string or an Unsigned(any) metric named "A", "B", "_aws" or ""
// @oracle validations on: a validation error is recorded exactly when the entry writes two values under one name, an empty or reserved name, or more than one timestamp; validations off: only the multiple-timestamp rule
// @stubs hashbrown -> in-repo Vec-backed model (kani_hashbrown.rs); tracing x4, Instant::now, alloc::fmt::format, String::push/push_str/shrink_to, Vec::extend_from_slice, itoa/dtoa recording stubs; Emf built by verif_hooks::emf_small (the constants build() computes for this configuration)
// @outside finish(): the missing-dimension sweep, 'writes nothing on error', byte-identical output with validations off; entry-dimension configuration; split-mode checks
#[kani::unwind(4)]
pub fn rejects_exactly_malformed_no_dimensions() {
    validation_kernel(false)
}
}

emf_harness! {
// @check C08 quick timeout=1800 mem=20
// @encodes same as rejects_exactly_malformed_no_dimensions, with a pre-populated validation map (UnfoundDimension)
// @bounds formatter with dimension sets [["A"]]; same entries
// @oracle additionally: a metric written under the dimension name "A" is rejected, a string named "A" (the dimension's value) is accepted, a second value named "A" is a duplicate
// @stubs same as rejects_exactly_malformed_no_dimensions
#[kani::unwind(4)]
pub fn rejects_exactly_malformed_with_dimension() {
    validation_kernel(true)
}
}
