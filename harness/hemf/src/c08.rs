//! C08 (narrow) — every documented way of enabling validations really enables them, in every build profile; name
//! validation rejects exactly the empty and the reserved name.
//!
//! The bulk of C08 (duplicate / dimension checks) lives in a hashbrown map and is outside what CBMC can decide
//! here: any program that merely constructs a `hashbrown::HashMap` (so any `Emf` value) does not get past CBMC's
//! instrumentation phase (measured: > 15 min, > 14 GB). `Emf::all_validations` itself is therefore checked by the
//! MIR-level dataflow query in /verif/mirsmt (see DESIGN.md C08), not here.
use metrique_writer_format_emf::Emf;
use metrique_writer_format_emf::verif_hooks as hooks;

fn builder_switches(skip: bool) {
    let b = Emf::builder(String::from("N"), vec![vec![]]).skip_all_validations(skip);
    let (unique, dims, names) = hooks::builder_validation_switches(&b);
    if skip {
        assert!(!unique && !dims && !names, "skip_all_validations(true) turns everything off");
    } else if cfg!(debug_assertions) {
        assert!(unique && dims && names, "builder default in debug builds: everything on");
    } else {
        assert!(!unique && !dims && !names, "documented builder default without debug assertions: validations off");
    }
    core::mem::forget(b);
}

// @check C08 quick timeout=600 mem=14
// @encodes Emf::builder, EmfBuilder::skip_all_validations
// @bounds skip flag symbolic; debug profile
// @oracle the three switches move together: all off after skip(true); builder default as documented for the profile
#[kani::proof]
#[kani::unwind(4)]
pub fn builder_switches_move_together_debug() {
    let skip: bool = kani::any();
    kani::cover!(skip, "skip requested");
    builder_switches(skip)
}

// @check C08 quick timeout=600 mem=14 env=CARGO_PROFILE_DEV_DEBUG_ASSERTIONS=false
// @encodes Emf::builder (release arm), EmfBuilder::skip_all_validations
// @bounds skip flag symbolic; release profile semantics (debug assertions off)
// @oracle same as builder_switches_move_together_debug
#[kani::proof]
#[kani::unwind(4)]
pub fn builder_switches_move_together_release() {
    let skip: bool = kani::any();
    kani::cover!(!skip, "skip not requested");
    builder_switches(skip)
}
