//! C02 (kernels) — the metric-value part of an EMF record is well-formed JSON for every placement of
//! NaN / infinite / zero-occurrence observations, and a skipped metric leaves no trace.
//!
//! Real code executed: `emf::ValueWriter::{write_metric, write_metric_value, write_observation, write_float}`,
//! `emf::clamp_to_finite`, `buf::PrefixedStringBuf::*`, `json_string` (serde_json escaping), the `rate_limited!`
//! macro and its clock arithmetic.
use crate::kernel::*;
use crate::stubs;
use metrique_writer_core::{MetricFlags, Observation, Unit};
use metrique_writer_format_emf::verif_hooks as hooks;

macro_rules! emf_harness {
    ($(#[$m:meta])* pub fn $name:ident() $body:block) => {
        $(#[$m])*
        #[kani::proof]
        #[kani::stub(tracing::dispatcher::get_default, crate::stubs::tracing_get_default)]
        #[kani::stub(tracing::callsite::DefaultCallsite::register, crate::stubs::tracing_register)]
        #[kani::stub(tracing::Event::dispatch, crate::stubs::tracing_event_dispatch)]
        #[kani::stub(tracing::__macro_support::__is_enabled, crate::stubs::tracing_is_enabled)]
        #[kani::stub(std::time::Instant::now, crate::stubs::instant_now)]
        #[kani::stub(alloc::fmt::format, crate::stubs::fmt_format)]
        #[kani::stub(alloc::string::String::push_str, crate::stubs::string_push_str)]
        #[kani::stub(alloc::string::String::push, crate::stubs::string_push)]
        #[kani::stub(alloc::string::String::shrink_to, crate::stubs::string_shrink_to)]
        #[kani::stub(alloc::vec::Vec::extend_from_slice, crate::stubs::vec_extend_from_slice)]
        #[kani::stub(itoa::Buffer::format, crate::stubs::itoa_format)]
        #[kani::stub(dtoa::Buffer::format_finite, crate::stubs::dtoa_format_finite)]
        pub fn $name() $body
    };
}
pub(crate) use emf_harness;

pub const ABSENT: u8 = 255;

fn obs_for(p: u8) -> metrique_writer_core::Observation {
    obs_of_kind(p)
}

/// the observation-list oracle shared by all list harnesses
pub fn list_structure<const P0: u8, const P1: u8, const P2: u8>(mult: Option<u64>) {
    let mut b = bufs();
    stubs::reset_logs();
    let n = if P2 == ABSENT { 2 } else { 3 };
    let o0 = obs_for(P0);
    let o1 = obs_for(P1);
    let o2 = if P2 == ABSENT { o1 } else { obs_for(P2) };
    let written = usable(o0) as usize + usable(o1) as usize + if n == 3 { usable(o2) as usize } else { 0 };
    let last_usable = if n == 3 { usable(o2) } else { usable(o1) };
    let all_nan_shapes = P0 == 3 && P1 == 3 && (P2 == ABSENT || P2 == 3);
    kani::cover!(written >= 1 || all_nan_shapes, "at least one observation written (unless every position is the NaN shape)");
    let pre = b.fields.as_str().len();
    let ok = if n == 3 {
        hooks::write_metric("m", &mut b.fields, &mut b.metrics, &mut b.counts, [o0, o1, o2], Unit::None, MetricFlags::empty(), mult)
    } else {
        hooks::write_metric("m", &mut b.fields, &mut b.metrics, &mut b.counts, [o0, o1], Unit::None, MetricFlags::empty(), mult)
    };
    let _ = last_usable;
    assert!(ok, "write_metric never reports a validation error for observations");
    assert!(b.counts.is_empty(), "counts buffer left empty");
    let s = b.fields.as_str();
    if cfg!(verif_native) {
        // native replay of a counterexample: real number formatting, real String growth; the oracle is a JSON parser
        let parsed = native_parse_member(s, pre).expect("fields buffer is not valid JSON");
        match parsed {
            None => assert!(written == 0 && s.len() == pre && b.metrics.is_empty(), "skipped metric leaves no trace"),
            Some((values, counts)) => {
                assert!(written >= 1, "a metric with no usable observation must not appear");
                assert!(values.len() == written && counts.len() == written, "one value and one count per usable observation");
                assert!(!b.metrics.is_empty(), "metric declared");
            }
        }
        return;
    }
    if written == 0 {
        assert!(s.len() == pre, "a metric with no usable observation leaves the fields buffer untouched");
        assert!(b.metrics.is_empty(), "a metric with no usable observation is not declared");
        unsafe { assert!(stubs::INT_N + stubs::FLT_N == 0, "nothing formatted for a skipped metric") };
    } else {
        assert!(starts_with_at(s, pre, r#","m":{"Values":["#), "member starts with separator, name, Values list");
        assert!(ends_with(s, "]}"), "member ends with the closed Counts list");
        assert!(no_bad_pair_anywhere(s, pre), "no empty list slot: no `,]` `[,` `,,` `[]` anywhere");
        unsafe {
            assert!(stubs::INT_N + stubs::FLT_N == 2 * written, "one value and one count per usable observation");
        }
        assert!(!b.metrics.is_empty(), "metric declared");
        // with one-byte number tokens the exact length is known: prefix + v(,v)* + `],"Counts":[` + c(,c)* + `]}`
        assert!(s.len() == pre + 16 + (2 * written - 1) + 12 + (2 * written - 1) + 2, "exactly `written` values and counts, comma separated");
    }
}

// ------------------------------------------------------------------ H2: JSON string escaping
/// decode the JSON string literal in `out` (must be `"`...`"`) into `dec`; returns decoded length or usize::MAX if
/// the literal is malformed (raw quote / backslash / control byte, bad escape).
fn decode_json_string(out: &[u8], dec: &mut [u8; 8]) -> usize {
    let n = out.len();
    if n < 2 || out[0] != b'"' || out[n - 1] != b'"' {
        return usize::MAX;
    }
    let mut i = 1;
    let mut d = 0;
    while i < n - 1 {
        let c = out[i];
        if c == b'\\' {
            if i + 1 >= n - 1 {
                return usize::MAX;
            }
            let e = out[i + 1];
            let v = match e {
                b'"' => b'"',
                b'\\' => b'\\',
                b'n' => b'\n',
                b'r' => b'\r',
                b't' => b'\t',
                b'b' => 0x08,
                b'f' => 0x0c,
                b'u' => {
                    if i + 5 >= n - 1 + 0 && i + 5 > n - 2 {
                        return usize::MAX;
                    }
                    let h = |x: u8| -> u8 {
                        if x >= b'0' && x <= b'9' { x - b'0' } else if x >= b'a' && x <= b'f' { x - b'a' + 10 } else { 0xff }
                    };
                    let (a, b, c2, d2) = (h(out[i + 2]), h(out[i + 3]), h(out[i + 4]), h(out[i + 5]));
                    if a != 0 || b != 0 || c2 == 0xff || d2 == 0xff {
                        return usize::MAX;
                    }
                    i += 4;
                    c2 * 16 + d2
                }
                _ => return usize::MAX,
            };
            if d >= 8 {
                return usize::MAX;
            }
            dec[d] = v;
            d += 1;
            i += 2;
        } else {
            if c < 0x20 || c == b'"' {
                return usize::MAX;
            }
            if d >= 8 {
                return usize::MAX;
            }
            dec[d] = c;
            d += 1;
            i += 1;
        }
    }
    d
}

fn json_string_roundtrip<const N: usize>() {
    let bytes: [u8; N] = kani::any();
    let len: usize = kani::any();
    kani::assume(len <= N);
    let input = &bytes[..len];
    let Ok(text) = core::str::from_utf8(input) else {
        return; // only valid UTF-8 is a `&str`
    };
    let mut out = String::with_capacity(6 * N + 2 + 4);
    out.push_str("ab"); // pre-existing content must be preserved
    hooks::string_json_string(&mut out, text);
    let o = out.as_bytes();
    kani::cover!(len == N && o.len() > N + 4, "an escape was produced");
    kani::cover!(len == N && (N == 1 || bytes[0] >= 0xc2), "full-length input (non-ASCII when more than one byte)");
    assert!(o.len() >= 4 && o[0] == b'a' && o[1] == b'b', "existing buffer content preserved");
    let mut dec = [0u8; 8];
    let d = decode_json_string(&o[2..], &mut dec);
    assert!(d != usize::MAX, "output is a well-formed JSON string literal: no raw quote, backslash or control byte");
    assert!(d == len, "literal decodes to the same number of bytes");
    let j: usize = kani::any();
    kani::assume(j < len);
    assert!(dec[j] == bytes[j], "literal decodes to exactly the input text");
}

// @check C02 quick timeout=900 mem=14
// @encodes json_string::JsonString for String (serde_json::to_writer -> format_escaped_str), used for every name, string value, unit and dimension
// @bounds the empty string and every 1-byte string (all 128 ASCII bytes: every control character, quote, backslash, DEL), appended to a non-empty buffer
// @oracle output = previous content + a JSON string literal that contains no raw `"`, `\` or byte < 0x20 and decodes (independent decoder in the harness) to exactly the input bytes
// @stubs Vec::extend_from_slice (no-realloc model with asserted capacity), String::push_str
#[kani::proof]
#[kani::unwind(10)]
#[kani::stub(alloc::vec::Vec::extend_from_slice, crate::stubs::vec_extend_from_slice)]
#[kani::stub(alloc::string::String::push_str, crate::stubs::string_push_str)]
pub fn json_string_escapes_1_byte() {
    json_string_roundtrip::<1>()
}

// @check C02 thorough timeout=3600 mem=14
// @encodes json_string::JsonString for String (serde_json::to_writer -> format_escaped_str)
// @bounds every valid UTF-8 string of at most 2 bytes (incl. all 2-byte sequences)
// @oracle same as json_string_escapes_1_byte
// @stubs Vec::extend_from_slice, String::push_str
#[kani::proof]
#[kani::unwind(16)]
#[kani::stub(alloc::vec::Vec::extend_from_slice, crate::stubs::vec_extend_from_slice)]
#[kani::stub(alloc::string::String::push_str, crate::stubs::string_push_str)]
pub fn json_string_escapes_2_bytes() {
    json_string_roundtrip::<2>()
}

// @disabled-check (does not finish in 40 minutes: not registered) C02 thorough timeout=3600 mem=30
// @encodes json_string::JsonString for String (serde_json::to_writer -> format_escaped_str)
// @bounds every valid UTF-8 string of at most 3 bytes
// @oracle same as json_string_escapes_2_bytes
// @stubs Vec::extend_from_slice, String::push_str
#[kani::proof]
#[kani::unwind(24)]
#[kani::stub(alloc::vec::Vec::extend_from_slice, crate::stubs::vec_extend_from_slice)]
#[kani::stub(alloc::string::String::push_str, crate::stubs::string_push_str)]
pub fn json_string_escapes_3_bytes() {
    json_string_roundtrip::<3>()
}

// ------------------------------------------------------------------ H3: numbers
// @check C02,C03 quick timeout=300
// @encodes emf::clamp_to_finite (f64::clamp + rate-limited log)
// @bounds every f64
// @oracle NaN => None; +-inf => +-f64::MAX; finite => unchanged bit-for-bit; result always finite
// @stubs tracing x4, Instant::now
#[kani::proof]
#[kani::stub(tracing::dispatcher::get_default, crate::stubs::tracing_get_default)]
#[kani::stub(tracing::callsite::DefaultCallsite::register, crate::stubs::tracing_register)]
#[kani::stub(tracing::Event::dispatch, crate::stubs::tracing_event_dispatch)]
#[kani::stub(tracing::__macro_support::__is_enabled, crate::stubs::tracing_is_enabled)]
#[kani::stub(std::time::Instant::now, crate::stubs::instant_now)]
#[kani::stub(alloc::fmt::format, crate::stubs::fmt_format)]
pub fn clamp_to_finite_all_f64() {
    let f: f64 = kani::any();
    let r = hooks::clamp_to_finite(f);
    kani::cover!(f.is_nan(), "NaN input");
    kani::cover!(f == f64::NEG_INFINITY, "negative infinity input");
    match r {
        None => assert!(f.is_nan(), "only NaN is skipped"),
        Some(g) => {
            assert!(g.is_finite(), "emitted numbers are finite (JSON has no inf/NaN)");
            if f.is_finite() {
                assert!(g.to_bits() == f.to_bits(), "finite values unchanged");
            } else {
                assert!(!f.is_nan());
                assert!(g == if f > 0.0 { f64::MAX } else { -f64::MAX }, "infinities clamped to the largest finite double");
            }
        }
    }
}

// @check C02 quick timeout=300
// @encodes emf::ValueWriter::write_float (`.0` stripping) on top of the dtoa stub's literal shapes
// @bounds any finite f64; dtoa output one of "1.5", "15.0", "1e21"
// @oracle text appended is "1.5", "15" or "1e21": still a JSON number, integral floats lose exactly the ".0"
// @stubs dtoa::Buffer::format_finite (recording), String::push_str
#[kani::proof]
#[kani::stub(dtoa::Buffer::format_finite, crate::stubs::dtoa_format_finite)]
#[kani::stub(alloc::string::String::push_str, crate::stubs::string_push_str)]
#[kani::stub(alloc::string::String::push, crate::stubs::string_push)]
pub fn write_float_strips_only_dot_zero() {
    let f: f64 = kani::any();
    kani::assume(f.is_finite());
    stubs::reset_logs();
    unsafe { stubs::VARIED_TOKENS = true };
    let mut b = Buf::new("}", 16);
    hooks::write_float(&mut b, f);
    let s = b.as_str();
    if cfg!(verif_native) {
        // native replay: the stubs are inactive, the real dtoa ran; the text must denote f and carry no ".0"
        let text = &s[1..];
        assert!(text.parse::<f64>().map(|g| g == f).unwrap_or(false), "text denotes the value");
        assert!(!text.ends_with(".0"), "integral floats lose the .0");
        return;
    }
    unsafe { assert!(stubs::FLT_N == 1 && stubs::FLT_LOG[0].to_bits() == f.to_bits(), "the value itself is formatted") };
    kani::cover!(s.len() == 3, "stripped form");
    assert!(
        (s.len() == 4 && starts_with_at(s, 1, "1.5")) || (s.len() == 3 && starts_with_at(s, 1, "15")) || (s.len() == 5 && starts_with_at(s, 1, "1e21")),
        "number literal intact"
    );
}

fn real_itoa_check(v: u64) {
    let mut b = Buf::new("[", 24);
    b.push_integer(v);
    let s = b.as_str().as_bytes();
    let n = s.len() - 1;
    assert!(n >= 1 && n <= 20);
    assert!(n == 1 || s[1] != b'0', "no leading zero");
    let mut acc: u128 = 0;
    let mut i = 1;
    while i < s.len() {
        assert!(is_digit(s[i]), "digits only");
        acc = acc * 10 + (s[i] - b'0') as u128;
        i += 1;
    }
    assert!(acc == v as u128, "decimal text denotes the value");
}

// @check C02,C03 quick timeout=900 mem=14
// @encodes buf::PrefixedStringBuf::push_integer with the REAL itoa::Buffer::format::<u64>
// @bounds every u64 below 2^20 (thorough: every u64)
// @oracle appended text is ASCII digits, no leading zero unless the value is 0, and parses back to the value (independent decimal parser)
// @stubs String::push_str (no-realloc model)
#[kani::proof]
#[kani::unwind(9)]
#[kani::stub(alloc::string::String::push_str, crate::stubs::string_push_str)]
pub fn real_itoa_matches_stub_contract() {
    let v: u64 = kani::any();
    kani::assume(v < (1 << 20));
    kani::cover!(v > 999_999, "7-digit value");
    real_itoa_check(v)
}

// @disabled-check (does not finish in 40 minutes: not registered) C02,C03 thorough timeout=7200 mem=30
// @encodes buf::PrefixedStringBuf::push_integer with the REAL itoa::Buffer::format::<u64>
// @bounds every u64
// @oracle same as real_itoa_matches_stub_contract
// @stubs String::push_str (no-realloc model)
#[kani::proof]
#[kani::unwind(22)]
#[kani::stub(alloc::string::String::push_str, crate::stubs::string_push_str)]
pub fn real_itoa_every_u64() {
    let v: u64 = kani::any();
    kani::cover!(v > 9_999_999_999_999_999_999, "20-digit value");
    real_itoa_check(v)
}

// @check C02,C03 quick timeout=600
// @encodes emf::ValueWriter::write_float with the REAL dtoa::Buffer::format_finite on concrete floats
// @bounds concrete values 0.0, 1.0, 1.5, -2.0, 1e21, f64::MAX, 5e-324, 0.1 (dtoa on symbolic floats does not terminate in CBMC: normalisation loops)
// @oracle exact expected JSON number text
// @stubs String::push_str
#[kani::proof]
#[kani::unwind(66)]
#[kani::stub(alloc::string::String::push_str, crate::stubs::string_push_str)]
pub fn real_dtoa_concrete_values() {
    fn check(v: f64, want: &str) {
        let mut b = Buf::new("", 32);
        hooks::write_float(&mut b, v);
        let s = b.as_str();
        assert!(s.len() == want.len(), "length");
        let mut i = 0;
        while i < want.len() {
            assert!(s.as_bytes()[i] == want.as_bytes()[i], "text");
            i += 1;
        }
    }
    check(0.0, "0");
    check(1.0, "1");
    check(1.5, "1.5");
    check(-2.0, "-2");
    check(0.1, "0.1");
    check(1e21, "1e21");
    check(f64::MAX, "1.7976931348623157e308");
    check(5e-324, "5e-324");
}
