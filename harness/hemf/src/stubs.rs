//! Environment stubs = the trusted base of the EMF harnesses. Each harness lists what it uses in `@stubs`.
//!
//! * tracing: no subscriber is installed; events and spans are no-ops (Kani 0.68 crashes at compile time on
//!   anything that reaches `catch_unwind`, which the real dispatcher does through its thread-local).
//! * clock: `Instant::now` returns arbitrary non-decreasing instants.
//! * `String::push/push_str`, `Vec<u8>::extend_from_slice`: in-place models that ASSERT the capacity suffices, so
//!   the model can only fail loudly; growth/reallocation is outside the model.
//! * itoa / dtoa: recording stubs. They store the numeric argument and return one of a few literal shapes, which
//!   turns string-building code into code with a numeric oracle. The real itoa/dtoa are checked against the
//!   contract the stubs rely on ("returns a JSON number literal that denotes the argument") in their own harnesses.
use std::time::{Duration, Instant};

// ---------------------------------------------------------------- tracing
pub fn tracing_get_default<T, F>(mut f: F) -> T
where
    F: FnMut(&tracing::Dispatch) -> T,
{
    f(&tracing::Dispatch::none())
}

pub fn tracing_register(_this: &'static tracing::callsite::DefaultCallsite) -> tracing::subscriber::Interest {
    tracing::subscriber::Interest::never()
}

pub fn tracing_event_dispatch<'a: 'a>(
    _metadata: &'static tracing::Metadata<'static>,
    _fields: &'a tracing::field::ValueSet<'_>,
) {
}

pub fn tracing_is_enabled(_meta: &tracing::Metadata<'static>, _interest: tracing::subscriber::Interest) -> bool {
    false
}

// ---------------------------------------------------------------- clock
static mut CLOCK_NS: u64 = 0;
// (the rate limiter's clock is modelled in the repo itself under cfg(kani): rate_limit::time_since_arbitrary_epoch)

pub fn instant_now() -> Instant {
    unsafe {
        let base: Instant = core::mem::zeroed();
        let step: u32 = kani::any();
        CLOCK_NS += step as u64;
        base + Duration::from_nanos(CLOCK_NS)
    }
}

// ---------------------------------------------------------------- fmt
pub fn fmt_format(_args: core::fmt::Arguments<'_>) -> String {
    String::new()
}

// ---------------------------------------------------------------- String / Vec<u8> (no growth)
pub fn string_push_str(s: &mut String, piece: &str) {
    unsafe {
        let v = s.as_mut_vec();
        let len = v.len();
        let n = piece.len();
        assert!(len + n <= v.capacity(), "verif-model: buffer capacity exceeded");
        core::ptr::copy_nonoverlapping(piece.as_ptr(), v.as_mut_ptr().add(len), n);
        v.set_len(len + n);
    }
}

pub fn string_push(s: &mut String, c: char) {
    let mut tmp = [0u8; 4];
    let enc: &str = c.encode_utf8(&mut tmp);
    string_push_str(s, enc)
}

pub fn string_shrink_to(_s: &mut String, _min_capacity: usize) {}

pub fn vec_extend_from_slice<T: Clone, A: std::alloc::Allocator>(v: &mut Vec<T, A>, other: &[T]) {
    if core::mem::size_of::<T>() == 1 {
        unsafe {
            let len = v.len();
            let n = other.len();
            assert!(len + n <= v.capacity(), "verif-model: buffer capacity exceeded");
            core::ptr::copy_nonoverlapping(other.as_ptr(), v.as_mut_ptr().add(len), n);
            v.set_len(len + n);
        }
    } else {
        for x in other {
            v.push(x.clone());
        }
    }
}

// ---------------------------------------------------------------- itoa / dtoa recording stubs
pub const REC_MAX: usize = 8;
pub static mut INT_LOG: [u128; REC_MAX] = [0; REC_MAX];
pub static mut INT_N: usize = 0;
pub static mut FLT_LOG: [f64; REC_MAX] = [0.0; REC_MAX];
pub static mut FLT_N: usize = 0;

pub fn itoa_format<I: itoa::Integer>(_buf: &mut itoa::Buffer, i: I) -> &str {
    let v: u128 = unsafe {
        match core::mem::size_of::<I>() {
            8 => core::mem::transmute_copy::<I, u64>(&i) as u128,
            16 => core::mem::transmute_copy::<I, u128>(&i),
            4 => core::mem::transmute_copy::<I, u32>(&i) as u128,
            _ => panic!("verif-model: unexpected integer width"),
        }
    };
    unsafe {
        assert!(INT_N < REC_MAX, "verif-model: integer log full");
        INT_LOG[INT_N] = v;
        INT_N += 1;
    }
    unsafe { TOK_LOG_PUSH(if VARIED_TOKENS && kani::any() { "42" } else { "7" }) }
}

pub fn dtoa_format_finite<F: dtoa::Float>(_buf: &mut dtoa::Buffer, f: F) -> &str {
    let v: f64 = unsafe {
        match core::mem::size_of::<F>() {
            8 => core::mem::transmute_copy::<F, f64>(&f),
            _ => panic!("verif-model: unexpected float width"),
        }
    };
    assert!(v.is_finite(), "format_finite called with a non-finite value");
    unsafe {
        assert!(FLT_N < REC_MAX, "verif-model: float log full");
        FLT_LOG[FLT_N] = v;
        FLT_N += 1;
    }
    if unsafe { !VARIED_TOKENS } {
        return unsafe { TOK_LOG_PUSH("5") };
    }
    let c: u8 = kani::any();
    unsafe {
        TOK_LOG_PUSH(match c % 3 {
            0 => "1.5",
            1 => "15.0",
            _ => "1e21",
        })
    }
}

/// false: every integer formats as "7" and every float as "5" (buffer offsets stay concrete => cheap);
/// true: tokens of different lengths and shapes ("42", "1.5", "15.0", "1e21") are chosen nondeterministically.
pub static mut VARIED_TOKENS: bool = false;

/// the literal tokens handed out, in call order (lets a harness rebuild the exact expected text)
pub static mut TOK_LOG: [&str; REC_MAX] = [""; REC_MAX];
pub static mut TOK_N: usize = 0;

#[allow(non_snake_case)]
unsafe fn TOK_LOG_PUSH(t: &'static str) -> &'static str {
    unsafe {
        assert!(TOK_N < REC_MAX, "verif-model: token log full");
        TOK_LOG[TOK_N] = t;
        TOK_N += 1;
    }
    t
}

pub fn reset_logs() {
    unsafe {
        INT_N = 0;
        FLT_N = 0;
        TOK_N = 0;
    }
}

// ---------------------------------------------------------------- SmallVec never spills (asserted)
/// `SmallVec::try_grow`: the inline capacity always suffices in these harnesses; the model asserts it, so a
/// spill (heap growth with a symbolic size, which CBMC cannot digest) fails loudly instead of being explored.
pub fn smallvec_try_grow<A: smallvec::Array>(
    v: &mut smallvec::SmallVec<A>,
    new_cap: usize,
) -> Result<(), smallvec::CollectionAllocErr> {
    let _ = v;
    assert!(new_cap <= A::size(), "verif-model: SmallVec would spill to the heap");
    Ok(())
}
