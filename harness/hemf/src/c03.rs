//! C03 (kernels) — the numbers, counts and metric declaration written for one observation are exactly the entry's.
//!
//! Real code executed: `emf::ValueWriter::{write_metric, write_metric_value, write_observation, write_float}`,
//! `clamp_to_finite`, flag downcast (`MetricFlags::downcast::<EmfOptions>`), `Unit::name`, `json_string`.
use crate::c02::emf_harness;
use crate::kernel::*;
use crate::stubs;
use metrique_writer_core::unit::{NegativeScale, PositiveScale};
use metrique_writer_core::{MetricFlags, Observation, Unit};
use metrique_writer_format_emf::verif_hooks as hooks;

fn clamp_model(x: f64) -> f64 {
    if x > f64::MAX {
        f64::MAX
    } else if x < -f64::MAX {
        -f64::MAX
    } else {
        x
    }
}

fn short_f64() -> f64 {
    let b: u64 = kani::any();
    kani::assume(b & ((1u64 << 44) - 1) == 0);
    f64::from_bits(b)
}

/// text of `s[from..]` equals the concrete `expected` (length + symbolic-index byte comparison)
fn text_is(s: &str, from: usize, expected: &str) -> bool {
    if s.len() != from + expected.len() {
        return false;
    }
    let j: usize = kani::any();
    kani::assume(j < expected.len());
    s.as_bytes()[from + j] == expected.as_bytes()[j]
}

fn single_observation(kind: u8, unit_sel: u8) {
    let mut b = bufs();
    stubs::reset_logs();
    let mult: Option<u64> = if kani::any() { Some(kani::any()) } else { None };
    let m = mult.unwrap_or(1);
    let v_u: u64 = kani::any();
    let v_f: f64 = kani::any();
    // Repeated: both operands of `total / occurrences` are symbolic, so they are kept to 4 significant bits each
    // (8 + 8 bits did not finish in 20 minutes)
    let total = short_f64();
    kani::assume(total.to_bits() & ((1u64 << 48) - 1) == 0);
    let occ8: u8 = kani::any();
    let occ_shift: u8 = kani::any();
    kani::assume(occ8 < 16 && occ_shift <= 40);
    let occ: u64 = (occ8 as u64) << occ_shift;
    let obs = match kind {
        0 => Observation::Unsigned(v_u),
        1 => Observation::Floating(v_f),
        _ => Observation::Repeated { total, occurrences: occ },
    };
    let unit = match unit_sel {
        0 => Unit::None,
        1 => Unit::Count,
        2 => Unit::Second(NegativeScale::Milli),
        3 => Unit::Custom("x"),
        // a custom unit is arbitrary text: it must go through the JSON escaper like every other string
        _ => Unit::Custom("\"\\"),
    };
    let flag_sel: u8 = kani::any();
    kani::assume(flag_sel < 3);
    let flags = match flag_sel {
        0 => MetricFlags::empty(),
        1 => hooks::high_storage_resolution_flags(),
        _ => hooks::no_metric_flags(),
    };
    let pre = b.fields.as_str().len();
    let ok = hooks::write_metric("m", &mut b.fields, &mut b.metrics, &mut b.counts, [obs], unit, flags, mult);
    assert!(ok);
    let (int_n, flt_n) = unsafe { (stubs::INT_N, stubs::FLT_N) };
    let is_usable = usable(obs);
    if cfg!(verif_native) {
        // native replay of a counterexample: the recording stubs are inactive, so the numbers are read back from the
        // real output with a JSON parser
        let parsed = native_parse_member(b.fields.as_str(), pre).expect("fields buffer is not valid JSON");
        let want_value = match kind {
            0 => v_u as f64,
            1 => clamp_model(v_f),
            _ => clamp_model(if occ == 0 { 0.0 } else { total / (occ as f64) }),
        };
        let want_count = if kind == 2 { occ.saturating_mul(m) } else { m };
        match parsed {
            None => assert!(!is_usable && b.metrics.is_empty(), "a usable observation must be emitted"),
            Some((values, counts)) => {
                assert!(is_usable, "an unusable observation must not be emitted");
                assert!(values.len() == 1 && values[0] == want_value, "emitted value is the entry's");
                if mult.is_some() || kind == 2 {
                    assert!(counts.len() == 1 && counts[0] == want_count, "emitted count is occurrences x multiplicity");
                } else {
                    assert!(counts.is_empty(), "scalar form without sampling");
                }
                assert!(b.metrics.is_empty() == (flag_sel == 2), "declared unless no-metric");
                check_declaration(&b, unit_sel, flag_sel);
            }
        }
        return;
    }
    kani::cover!(is_usable && mult.is_some() && flag_sel == 1, "sampled, high-resolution metric");
    kani::cover!(kind == 0 || !is_usable, "unusable observation (kinds that can be unusable)");
    kani::cover!(kind != 2 || occ == 0, "zero occurrences (repeated kind)");
    if !is_usable {
        assert!(b.fields.as_str().len() == pre, "metrics with no usable observation appear nowhere (fields)");
        assert!(b.metrics.is_empty(), "metrics with no usable observation appear nowhere (declaration)");
        assert!(int_n + flt_n == 0);
        return;
    }
    let scalar = mult.is_none() && kind < 2;
    unsafe {
        match kind {
            0 => {
                assert!(flt_n == 0 && stubs::INT_LOG[0] == v_u as u128, "unsigned value emitted as the same number");
                if scalar {
                    assert!(int_n == 1);
                } else {
                    assert!(int_n == 2 && stubs::INT_LOG[1] == m as u128, "count is the sampling multiplicity");
                }
            }
            1 => {
                assert!(flt_n == 1 && stubs::FLT_LOG[0].to_bits() == clamp_model(v_f).to_bits(), "float emitted as the same number, infinities clamped");
                if scalar {
                    assert!(int_n == 0);
                } else {
                    assert!(int_n == 1 && stubs::INT_LOG[0] == m as u128, "count is the sampling multiplicity");
                }
            }
            _ => {
                let mean = if occ == 0 { 0.0 } else { total / (occ as f64) };
                assert!(flt_n == 1 && stubs::FLT_LOG[0].to_bits() == clamp_model(mean).to_bits(), "value is the observation mean, clamped");
                let want = match occ.checked_mul(m) {
                    Some(x) => x,
                    None => u64::MAX,
                };
                assert!(int_n == 1 && stubs::INT_LOG[0] == want as u128, "count is occurrences times multiplicity, saturating");
            }
        }
    }
    // shape of the member
    let s = b.fields.as_str();
    if scalar {
        assert!(starts_with_at(s, pre, r#","m":"#) && is_digit(byte_at(s, pre + 5)), "scalar member");
        assert!(!ends_with(s, "}"), "scalar member is a bare number");
    } else {
        assert!(starts_with_at(s, pre, r#","m":{"Values":["#) && ends_with(s, "]}"), "histogram member");
    }
    check_declaration(&b, unit_sel, flag_sel);
}

/// the metric declaration ("Metrics" directive entry) is exactly the expected text for (unit, flag); does not depend on
/// the recording stubs, so it is checked by the solver and again in the native replay
fn check_declaration(b: &Bufs, unit_sel: u8, flag_sel: u8) {
    let mp = METRICS_PREFIX.len();
    let ms = b.metrics.as_str();
    if flag_sel == 2 {
        assert!(b.metrics.is_empty(), "no-metric values are not declared");
    } else {
        let expected = match (unit_sel, flag_sel) {
            (0, 0) => r#"{"Name":"m"}"#,
            (0, _) => r#"{"Name":"m","StorageResolution":1}"#,
            (1, 0) => r#"{"Name":"m","Unit":"Count"}"#,
            (1, _) => r#"{"Name":"m","Unit":"Count","StorageResolution":1}"#,
            (2, 0) => r#"{"Name":"m","Unit":"Milliseconds"}"#,
            (2, _) => r#"{"Name":"m","Unit":"Milliseconds","StorageResolution":1}"#,
            (3, 0) => r#"{"Name":"m","Unit":"x"}"#,
            (3, _) => r#"{"Name":"m","Unit":"x","StorageResolution":1}"#,
            (_, 0) => r#"{"Name":"m","Unit":"\"\\"}"#,
            (_, _) => r#"{"Name":"m","Unit":"\"\\","StorageResolution":1}"#,
        };
        assert!(text_is(ms, mp, expected), "declaration carries exactly name, unit and storage resolution");
    }
}

macro_rules! single {
    ($($name:ident: $kind:expr, $unit:expr;)*) => { $(
        emf_harness! {
        pub fn $name() {
            single_observation($kind, $unit)
        }
        }
    )* };
}

// @check C03 quick filter=c03::single:: timeout=1200 mem=14
// @encodes emf::ValueWriter::write_metric, write_metric_value, write_observation (mean, saturating count), write_float, clamp_to_finite, MetricFlags::downcast, Unit::name, json_string
// @bounds one observation per harness kind: Unsigned(any u64) / Floating(any f64 incl. NaN, +-inf, subnormals) / Repeated{total with 4 free mantissa bits at any exponent incl. NaN and inf, occurrences m<<s (m<16, s<=40) incl. 0}; multiplicity None or Some(any u64); unit case-split over {None, Count, Milliseconds, Custom("x"), Custom(quote+backslash)} (15 harnesses); flags symbolic in {none, high-resolution, no-metric}
// @oracle recorded value == v / clamp(v) / clamp(total/occurrences, 0 for zero occurrences) bit-for-bit; recorded count == multiplicity resp. occurrences.saturating_mul(multiplicity) (list form iff sampled or repeated); NaN => nothing written or declared; declaration text equals the expected literal for (unit, flag) - so a custom unit is JSON-escaped - and is absent for no-metric
// @stubs tracing x4, Instant::now, alloc::fmt::format, String::push/push_str/shrink_to, Vec::extend_from_slice, itoa::Buffer::format (recording), dtoa::Buffer::format_finite (recording)
// @outside timestamp, namespace replication, dimension sets and split records (finish()/config()); Repeated totals/occurrence counts needing more than 4 significant bits (two symbolic/symbolic IEEE dividers: code and oracle)
pub mod single {
    use super::*;
    single! {
        unsigned_none: 0, 0; unsigned_count: 0, 1; unsigned_millis: 0, 2; unsigned_custom: 0, 3; unsigned_custom_quote: 0, 4;
        floating_none: 1, 0; floating_count: 1, 1; floating_millis: 1, 2; floating_custom: 1, 3; floating_custom_quote: 1, 4;
        repeated_none: 2, 0; repeated_count: 2, 1; repeated_millis: 2, 2; repeated_custom: 2, 3; repeated_custom_quote: 2, 4;
    }
}

// The custom-unit harnesses of the family above are also part of C02: a unit name containing a quote or a backslash
// must reach the "Metrics" directive through the JSON escaper, otherwise the record is not valid JSON.
// @check C02 quick filter=_custom_quote timeout=1200 mem=14
// @encodes emf::ValueWriter::write_metric (declaration: "Name", "Unit" via json_string, "StorageResolution"), Unit::name
// @bounds the three c03::single::*_custom_quote harnesses: Unit::Custom("\"\\") with one observation of each kind, flags symbolic
// @oracle the declaration text equals the expected literal with the unit escaped as \" \\ (so the directive stays valid JSON)
// @stubs tracing x4, Instant::now, alloc::fmt::format, String::push/push_str/shrink_to, Vec::extend_from_slice, itoa::Buffer::format (recording), dtoa::Buffer::format_finite (recording)
const _REGISTERED_FOR_C02: () = ();
