//! C14 (kernels) — reused buffers are reset, so one entry's formatting cannot leak into the next.
use crate::c02::emf_harness;
use crate::kernel::*;
use crate::stubs;
use metrique_writer_core::{MetricFlags, Observation, Unit};
use metrique_writer_format_emf::verif_hooks as hooks;

emf_harness! {
// @check C14 quick timeout=600 mem=14
// @encodes buf::PrefixedStringBuf::{new, push_raw_str, clear, is_empty, as_str}
// @bounds prefix `],"Counts":[`; arbitrary ASCII garbage of symbolic length 0..=12 appended (two pushes); capacity 48
// @oracle after clear(): is_empty(), length == prefix length, every byte equals the prefix (symbolic index)
// @stubs String::push_str/shrink_to (no-realloc model)
// @outside shrink_to(1 MiB) behaviour on multi-megabyte buffers (capacity management is not observable)
pub fn clear_restores_prefix() {
    let mut b = Buf::new(COUNTS_PREFIX, 48);
    let garbage: [u8; 12] = kani::any();
    let mut i = 0;
    while i < 12 {
        kani::assume(garbage[i] < 0x80);
        i += 1;
    }
    let n1: usize = kani::any();
    let n2: usize = kani::any();
    kani::assume(n1 <= 12 && n2 <= 12 && n1 <= n2);
    let g = unsafe { core::str::from_utf8_unchecked(&garbage) };
    b.push_raw_str(&g[..n1]);
    b.push_raw_str(&g[n1..n2]);
    kani::cover!(n2 == 12 && n1 == 5, "long garbage in two pieces");
    assert!(b.is_empty() == (n2 == 0));
    b.clear();
    assert!(b.is_empty(), "clear leaves only the prefix");
    let s = b.as_str();
    assert!(s.len() == COUNTS_PREFIX.len());
    let j: usize = kani::any();
    kani::assume(j < COUNTS_PREFIX.len());
    assert!(s.as_bytes()[j] == COUNTS_PREFIX.as_bytes()[j], "prefix bytes intact");
}
}

emf_harness! {
// @check C14 quick timeout=1500 mem=14
// @encodes emf::ValueWriter::write_metric_value (counts.clear() before and after use), write_observation
// @bounds counts buffer pre-loaded with leftover `X,X` from a hypothetical earlier entry; observations Unsigned(any u64), Floating(any f64 incl. NaN); multiplicity None/Some(any)
// @oracle no byte `X` anywhere in the fields buffer afterwards (symbolic index), counts buffer empty, Counts list starts right after its prefix with a digit
// @stubs tracing x4, Instant::now, alloc::fmt::format, String::push/push_str/shrink_to, Vec::extend_from_slice, itoa::Buffer::format, dtoa::Buffer::format_finite
// @outside the five clears at the top of format_with_multiplicity and the dimension-set map (whole-formatter state; see DESIGN.md C14)
pub fn stale_counts_do_not_leak() {
    let mut b = bufs();
    stubs::reset_logs();
    b.counts.push_raw_str("X,X");
    // kinds fixed (a solver-chosen kind makes total/occurrences a symbolic division, see lists.rs); payloads symbolic:
    // Unsigned(any) then Floating(any) - the second may be skipped (NaN) or written
    let (o0, o1) = (obs_of_kind(0), obs_of_kind(1));
    let mult: Option<u64> = if kani::any() { Some(kani::any()) } else { None };
    let pre = b.fields.as_str().len();
    let wrote = hooks::write_metric_value("m", &mut b.fields, &mut b.counts, o0, [o1].into_iter(), mult);
    kani::cover!(wrote, "something written");
    assert!(wrote == (usable(o0) || usable(o1)));
    assert!(b.counts.is_empty(), "counts buffer is empty after every call");
    let s = b.fields.as_str();
    let j: usize = kani::any();
    kani::assume(j >= pre && j < s.len());
    assert!(s.as_bytes()[j] != b'X', "leftover counts never reach the output");
}
}
