//! Shared helpers for the `write_metric_value` / `write_observation` / `write_metric` kernels (C02, C03, C14).
use crate::stubs;
use metrique_writer_core::{MetricFlags, Observation, Unit};
use metrique_writer_format_emf::verif_hooks as hooks;
pub use metrique_writer_format_emf::verif_hooks::Buf;

pub const N_KINDS: u8 = 6;

/// kinds of observation the list harnesses range over; payloads are symbolic where that is cheap
/// (u64, f64 incl. NaN / +-inf) and small constants where the formatter performs a float division.
pub fn obs_of_kind(k: u8) -> Observation {
    match k {
        0 => Observation::Unsigned(kani::any()),
        1 => Observation::Floating(kani::any()),
        2 => Observation::Repeated { total: 6.0, occurrences: 3 },
        3 => Observation::Repeated { total: f64::NAN, occurrences: 2 },
        4 => Observation::Repeated { total: 5.0, occurrences: 0 },
        _ => Observation::Repeated { total: f64::INFINITY, occurrences: 1 },
    }
}

/// reference model of "this observation is usable" (documented: NaN observations are skipped, everything
/// else is emitted; a zero-occurrence Repeated has mean 0)
pub fn usable(o: Observation) -> bool {
    match o {
        Observation::Unsigned(_) => true,
        Observation::Floating(f) => !f.is_nan(),
        Observation::Repeated { total, occurrences } => occurrences == 0 || !total.is_nan(),
        _ => false,
    }
}

pub struct Bufs {
    pub fields: Buf,
    pub metrics: Buf,
    pub counts: Buf,
}

pub const FIELDS_PREFIX: &str = "}";
pub const METRICS_PREFIX: &str = r#"],"Metrics":["#;
pub const COUNTS_PREFIX: &str = r#"],"Counts":["#;

pub fn bufs() -> Bufs {
    Bufs {
        fields: Buf::new(FIELDS_PREFIX, 72),
        metrics: Buf::new(METRICS_PREFIX, 80),
        counts: Buf::new(COUNTS_PREFIX, 40),
    }
}

pub fn byte_at(s: &str, i: usize) -> u8 {
    s.as_bytes()[i]
}

/// s[from..] starts with `pat` (concrete pattern, short)
pub fn starts_with_at(s: &str, from: usize, pat: &str) -> bool {
    let (b, p) = (s.as_bytes(), pat.as_bytes());
    if from + p.len() > b.len() {
        return false;
    }
    let mut i = 0;
    while i < p.len() {
        if b[from + i] != p[i] {
            return false;
        }
        i += 1;
    }
    true
}

pub fn ends_with(s: &str, pat: &str) -> bool {
    s.len() >= pat.len() && starts_with_at(s, s.len() - pat.len(), pat)
}

/// symbolic-index oracle: for an arbitrary position j in s[from..], the byte pair (s[j], s[j+1]) is not one of
/// the malformed JSON list pairs. One solver query covers every position.
pub fn no_bad_pair_anywhere(s: &str, from: usize) -> bool {
    let b = s.as_bytes();
    let j: usize = kani::any();
    kani::assume(j >= from && j < b.len() && j + 1 < b.len());
    let (x, y) = (b[j], b[j + 1]);
    !((x == b',' && y == b']')
        || (x == b'[' && y == b',')
        || (x == b',' && y == b',')
        || (x == b'[' && y == b']')
        || (x == b':' && y == b',')
        || (x == b':' && y == b'}')
        || (x == b',' && y == b'}'))
}

pub fn is_digit(c: u8) -> bool {
    c >= b'0' && c <= b'9'
}

/// Native replay only (`--cfg verif_native`: stubs inactive, the real itoa/dtoa/String ran): parse the member that
/// was appended to the fields buffer (`}` + `,"m":...`) with serde_json and return (values, counts) - a scalar is
/// returned as one value with no counts. `None` if the text is not valid JSON.
pub fn native_parse_member(fields: &str, pre: usize) -> Option<Option<(Vec<f64>, Vec<u64>)>> {
    let doc = format!("{{\"x\":0{}}}", &fields[pre..]);
    let v: serde_json::Value = serde_json::from_str(&doc).ok()?;
    let m = match v.get("m") {
        None => return Some(None),
        Some(m) => m,
    };
    if let Some(n) = m.as_f64() {
        return Some(Some((vec![n], vec![])));
    }
    let values: Vec<f64> = m.get("Values")?.as_array()?.iter().map(|x| x.as_f64()).collect::<Option<_>>()?;
    let counts: Vec<u64> = m.get("Counts")?.as_array()?.iter().map(|x| x.as_u64()).collect::<Option<_>>()?;
    Some(Some((values, counts)))
}
