//! Whole-formatter harnesses: the real `Emf::format` / `format_with_multiplicity` including `finish()`
//! (document assembly, namespaces, `write_all_vectored`), on an `Emf` in the state `build()` computes
//! (verif_hooks::emf_small), with hashbrown -> in-repo model and SmallVec asserted never to spill.
use crate::kernel::*;
use crate::stubs;
use metrique_writer_core::format::Format;
use metrique_writer_core::{Entry, EntryWriter, IoStreamError, MetricFlags, Observation, Unit, Value, ValueWriter};
use metrique_writer_format_emf::Emf;
use metrique_writer_format_emf::verif_hooks as hooks;
use std::time::{Duration, SystemTime};

macro_rules! full_harness {
    ($(#[$m:meta])* pub fn $name:ident() $body:block) => {
        $(#[$m])*
        #[kani::proof]
        #[kani::stub(tracing::dispatcher::get_default, crate::stubs::tracing_get_default)]
        #[kani::stub(tracing::callsite::DefaultCallsite::register, crate::stubs::tracing_register)]
        #[kani::stub(tracing::Event::dispatch, crate::stubs::tracing_event_dispatch)]
        #[kani::stub(tracing::__macro_support::__is_enabled, crate::stubs::tracing_is_enabled)]
        #[kani::stub(std::time::Instant::now, crate::stubs::instant_now)]
        #[kani::stub(alloc::fmt::format, crate::stubs::fmt_format)]
        #[kani::stub(alloc::string::String::push_str, crate::stubs::string_push_str)]
        #[kani::stub(alloc::string::String::push, crate::stubs::string_push)]
        #[kani::stub(alloc::string::String::shrink_to, crate::stubs::string_shrink_to)]
        #[kani::stub(alloc::vec::Vec::extend_from_slice, crate::stubs::vec_extend_from_slice)]
        #[kani::stub(itoa::Buffer::format, crate::stubs::itoa_format)]
        #[kani::stub(dtoa::Buffer::format_finite, crate::stubs::dtoa_format_finite)]
        #[kani::stub(smallvec::SmallVec::try_grow, crate::stubs::smallvec_try_grow)]
        pub fn $name() $body
    };
}

/// a writer that records how many bytes it was given and checks the record it receives byte by byte against the
/// expected text at a solver-chosen index
pub struct CheckingOut {
    pub expected: &'static str,
    pub n: usize,
    pub calls: usize,
    pub mismatch: bool,
}
impl std::io::Write for CheckingOut {
    fn write(&mut self, _buf: &[u8]) -> std::io::Result<usize> {
        panic!("the formatter writes with write_vectored")
    }
    fn write_vectored(&mut self, bufs: &[std::io::IoSlice<'_>]) -> std::io::Result<usize> {
        let mut k = 0;
        let mut i = 0;
        let j: usize = kani::any(); // offset inside this call's data
        while i < bufs.len() {
            let len = bufs[i].len();
            if j >= k && j < k + len {
                let pos = self.n + j;
                if pos >= self.expected.len() || bufs[i][j - k] != self.expected.as_bytes()[pos] {
                    self.mismatch = true;
                }
            }
            #[cfg(verif_native)]
            {
                // native replay: compare every byte of this slice, not only the solver-chosen position
                let mut b = 0;
                while b < len {
                    let pos = self.n + k + b;
                    if pos >= self.expected.len() || bufs[i][b] != self.expected.as_bytes()[pos] {
                        self.mismatch = true;
                    }
                    b += 1;
                }
            }
            k += len;
            i += 1;
        }
        self.n += k;
        self.calls += 1;
        Ok(k)
    }
    fn flush(&mut self) -> std::io::Result<()> {
        Ok(())
    }
}

const T_EMPTY: &str = "{\"_aws\":{\"CloudWatchMetrics\":[{\"Namespace\":\"N\",\"Dimensions\":[[]],\"Metrics\":[]}],\"Timestamp\":7}}\n";
const T_METRIC_A_STRING_B: &str = "{\"_aws\":{\"CloudWatchMetrics\":[{\"Namespace\":\"N\",\"Dimensions\":[[]],\"Metrics\":[{\"Name\":\"A\"}]}],\"Timestamp\":7},\"A\":7,\"B\":\"s\"}\n";
const T_DUP_METRIC_A: &str = "{\"_aws\":{\"CloudWatchMetrics\":[{\"Namespace\":\"N\",\"Dimensions\":[[]],\"Metrics\":[{\"Name\":\"A\"},{\"Name\":\"A\"}]}],\"Timestamp\":7},\"A\":7,\"A\":7}\n";
const T_FLOAT_A: &str = "{\"_aws\":{\"CloudWatchMetrics\":[{\"Namespace\":\"N\",\"Dimensions\":[[]],\"Metrics\":[{\"Name\":\"A\"}]}],\"Timestamp\":7},\"A\":5}\n";
const T_SAMPLED_A: &str = "{\"_aws\":{\"CloudWatchMetrics\":[{\"Namespace\":\"N\",\"Dimensions\":[[]],\"Metrics\":[{\"Name\":\"A\"}]}],\"Timestamp\":7},\"A\":{\"Values\":[7],\"Counts\":[7]}}\n";
const T_DIMENSION_A: &str = "{\"_aws\":{\"CloudWatchMetrics\":[{\"Namespace\":\"N\",\"Dimensions\":[[\"A\"]],\"Metrics\":[{\"Name\":\"B\"}]}],\"Timestamp\":7},\"B\":7,\"A\":\"s\"}\n";

#[derive(Clone, Copy)]
enum V {
    Str,
    Unsigned(u64),
    Float(f64),
}
impl Value for V {
    fn write(&self, w: impl ValueWriter) {
        match *self {
            V::Str => w.string("s"),
            V::Unsigned(u) => w.metric([Observation::Unsigned(u)], Unit::None, [], MetricFlags::empty()),
            V::Float(f) => w.metric([Observation::Floating(f)], Unit::None, [], MetricFlags::empty()),
        }
    }
}
/// timestamp 7 ms + up to two named values
struct E {
    items: [(&'static str, V); 2],
    n: usize,
}
impl Entry for E {
    fn write<'a>(&'a self, w: &mut impl EntryWriter<'a>) {
        w.timestamp(SystemTime::UNIX_EPOCH + Duration::from_millis(7));
        if self.n >= 1 {
            w.value(self.items[0].0, &self.items[0].1);
        }
        if self.n >= 2 {
            w.value(self.items[1].0, &self.items[1].1);
        }
    }
}
fn out(expected: &'static str) -> CheckingOut {
    CheckingOut { expected, n: 0, calls: 0, mismatch: false }
}
/// Under the solver the recording stubs print every integer as the token "7", so the templates are the expected text.
/// In a native replay (`--cfg verif_native`, no stubs) the real itoa prints the real numbers: the expected text is the
/// template with the token after each marker replaced by the number the entry carries.
#[cfg(not(verif_native))]
fn expected_text(template: &'static str, _subst: &[(&str, u64)]) -> &'static str {
    template
}
#[cfg(verif_native)]
fn expected_text(template: &'static str, subst: &[(&str, u64)]) -> &'static str {
    let mut s = template.to_string();
    for (marker, v) in subst {
        s = s.replacen(&format!("{marker}7"), &format!("{marker}{v}"), 1);
    }
    Box::leak(s.into_boxed_str())
}
fn exact(o: &CheckingOut) -> bool {
    o.calls == 1 && o.n == o.expected.len() && !o.mismatch
}
fn logged_int(v: u128) -> bool {
    let j: usize = kani::any();
    unsafe {
        kani::assume(j < stubs::INT_N);
        stubs::INT_LOG[j] == v
    }
}

full_harness! {
// @check C02,C03 thorough timeout=3600 mem=28
// @encodes Emf::format, format_with_multiplicity (buffer resets, EntryWriter), EntryWriter::{timestamp, value, validate_name, finish}, ValueWriter::{string, metric}, write_metric, write_all_vectored, advance_slices
// @bounds formatter "N" / [[]], validations OFF (with validations on, ValueWriter::metric's bit-set/validation-map path makes the same harness exceed 50 minutes); entry = timestamp 7 ms, metric "A" = Unsigned(any u64), string "B" = "s"
// @oracle Ok; the writer receives exactly one vectored write whose bytes equal, at every position (symbolic index), the expected single newline-terminated JSON line; the numbers formatted are the entry's value and the timestamp in epoch milliseconds
// @stubs hashbrown -> kani_hashbrown model; Emf state from verif_hooks::emf_small; SmallVec::try_grow asserted never to spill; tracing x4, Instant::now, alloc::fmt::format, String/Vec no-realloc models, itoa/dtoa recording stubs (tokens "7"/"5")
// @outside other namespaces/dimension configurations, split records, entry dimensions, names needing escapes in finish()
// @probe 8,8
#[kani::unwind(6)]
pub fn whole_format_metric_and_string() {
    stubs::reset_logs();
    let mut emf = hooks::emf_small(false, false);
    let v: u64 = kani::any();
    let e = E { items: [("A", V::Unsigned(v)), ("B", V::Str)], n: 2 };
    let mut o = out(expected_text(T_METRIC_A_STRING_B, &[("\"A\":", v)]));
    let r = emf.format(&e, &mut o);
    kani::cover!(v > 1 << 60, "large value");
    assert!(r.is_ok(), "a well-formed entry is accepted");
    assert!(exact(&o), "exactly the expected record, byte for byte, in one write");
    #[cfg(not(verif_native))]
    unsafe {
        assert!(stubs::INT_N == 2 && stubs::INT_LOG[0] == v as u128 && stubs::INT_LOG[1] == 7, "two integers formatted: the value, then the timestamp in epoch milliseconds");
    }
    core::mem::forget(emf);
}
}

full_harness! {
// @disabled-check (validations on: exceeds 50 minutes, see DESIGN.md C02) C08,C02 thorough timeout=5400 mem=30
// @encodes Emf::format incl. finish() (error return before the first write), ValueWriter::metric duplicate detection (validation map), write_all_vectored
// @bounds entry = timestamp + metric "A" written twice (Unsigned(any)); validations on or off (symbolic)
// @oracle validations on: Err(Validation) and the writer is never called (nothing at all is written); validations off: Ok and exactly the unvalidated record
#[kani::unwind(6)]
pub fn whole_format_duplicate_name() {
    stubs::reset_logs();
    let validate: bool = kani::any();
    let mut emf = hooks::emf_small(validate, false);
    let e = E { items: [("A", V::Unsigned(kani::any())), ("A", V::Unsigned(kani::any()))], n: 2 };
    let mut o = out(T_DUP_METRIC_A);
    let r = emf.format(&e, &mut o);
    kani::cover!(validate, "validations on");
    if validate {
        assert!(matches!(r, Err(IoStreamError::Validation(_))), "two values under one name are rejected");
        assert!(o.calls == 0 && o.n == 0, "a rejected entry writes nothing at all");
    } else {
        assert!(r.is_ok());
        assert!(exact(&o), "validations off: formatted as is");
    }
    core::mem::forget(r);
    core::mem::forget(emf);
}
}

full_harness! {
// @check C02,C03 thorough timeout=3600 mem=28
// @encodes Emf::format incl. finish(), write_metric (truncate-on-skip), clamp_to_finite
// @bounds entry = timestamp + metric "A" = Floating(NaN) (the solver-chosen float version of this harness exhausted 30 GB; NaN vs not-NaN is case-split into this harness and whole_format_float_metric); validations off
// @oracle the record is exactly the record of an entry without that metric: no member, no declaration, still one valid JSON line; Ok, one write
#[kani::unwind(6)]
pub fn whole_format_nan_metric_vanishes() {
    stubs::reset_logs();
    let mut emf = hooks::emf_small(false, false);
    let e = E { items: [("A", V::Float(f64::NAN)), ("A", V::Str)], n: 1 };
    let mut o = out(T_EMPTY);
    let r = emf.format(&e, &mut o);
    kani::cover!(true, "reached");
    assert!(r.is_ok());
    assert!(exact(&o), "metrics with no usable observation appear nowhere");
    unsafe { assert!(stubs::FLT_N == 0, "nothing formatted for the NaN") };
    core::mem::forget(emf);
}
}

full_harness! {
// @check C02,C03 thorough timeout=3600 mem=28
// @encodes Emf::format incl. finish(), write_metric, clamp_to_finite, write_float
// @bounds entry = timestamp + metric "A" = Floating(any f64 except NaN, incl. +-inf and subnormals); validations off
// @oracle exactly the one-metric record; the float handed to the number formatter is the value with infinities clamped to +-f64::MAX
#[kani::unwind(6)]
pub fn whole_format_float_metric() {
    stubs::reset_logs();
    let mut emf = hooks::emf_small(false, false);
    let f: f64 = kani::any();
    kani::assume(!f.is_nan());
    let e = E { items: [("A", V::Float(f)), ("A", V::Str)], n: 1 };
    let mut o = out(T_FLOAT_A);
    let r = emf.format(&e, &mut o);
    kani::cover!(f == f64::INFINITY, "infinity");
    assert!(r.is_ok());
    assert!(exact(&o), "exactly the one-metric record");
    let want = if f > f64::MAX { f64::MAX } else if f < -f64::MAX { -f64::MAX } else { f };
    unsafe { assert!(stubs::FLT_N == 1 && stubs::FLT_LOG[0].to_bits() == want.to_bits(), "the entry's value, infinities clamped") };
    core::mem::forget(emf);
}
}

full_harness! {
// @check C03,C12 thorough timeout=3600 mem=28
// @encodes Emf::format_with_multiplicity(Some(n)) incl. finish(), write_observation (count = multiplicity)
// @bounds entry = timestamp + metric "A" = Unsigned(any); multiplicity Some(any u64); validations off
// @oracle exactly the histogram-form record; the three integers formatted are the value, the multiplicity (as the count) and the timestamp
// @probe 8,8,8
#[kani::unwind(6)]
pub fn whole_format_sampled() {
    stubs::reset_logs();
    let mut emf = hooks::emf_small(false, false);
    let v: u64 = kani::any();
    let m: u64 = kani::any();
    let e = E { items: [("A", V::Unsigned(v)), ("A", V::Str)], n: 1 };
    let mut o = out(expected_text(T_SAMPLED_A, &[("\"Values\":[", v), ("\"Counts\":[", m)]));
    let r = hooks::format_with_multiplicity(&mut emf, &e, &mut o, Some(m));
    kani::cover!(m > 1, "weight above one");
    assert!(r.is_ok());
    assert!(exact(&o), "exactly the histogram-form record");
    #[cfg(not(verif_native))]
    unsafe {
        assert!(stubs::INT_N == 3 && stubs::INT_LOG[0] == v as u128 && stubs::INT_LOG[1] == m as u128 && stubs::INT_LOG[2] == 7, "value, count = multiplicity, timestamp");
    }
    core::mem::forget(emf);
}
}

full_harness! {
// @disabled-check (validations on: exceeds 50 minutes) C08,C03 thorough timeout=5400 mem=30
// @encodes Emf::format incl. finish()'s missing-dimension sweep, validate_string (dimension found), dimension arrays
// @bounds formatter with dimension sets [["A"]], validations on; entry = timestamp + metric "B" = Unsigned(any) + (solver decides) the string "A" that is the dimension's value
// @oracle with the dimension value present: Ok and exactly the expected record (Dimensions [["A"]]); without it: Err(Validation) (missing dimension) and nothing written
#[kani::unwind(6)]
pub fn whole_format_dimension_required() {
    stubs::reset_logs();
    let mut emf = hooks::emf_small(true, true);
    let present: bool = kani::any();
    let e = E { items: [("B", V::Unsigned(kani::any())), ("A", V::Str)], n: if present { 2 } else { 1 } };
    let mut o = out(T_DIMENSION_A);
    let r = emf.format(&e, &mut o);
    kani::cover!(present, "dimension value present");
    kani::cover!(!present, "dimension value missing");
    if present {
        assert!(r.is_ok());
        assert!(exact(&o));
    } else {
        assert!(matches!(r, Err(IoStreamError::Validation(_))), "an entry lacking a declared dimension is rejected");
        assert!(o.calls == 0 && o.n == 0, "and writes nothing");
    }
    core::mem::forget(r);
    core::mem::forget(emf);
}
}

fn second_entry_after(first_fails_io: bool) {
    stubs::reset_logs();
    let mut emf = hooks::emf_small(false, false);
    let e1 = E { items: [("B", V::Unsigned(kani::any())), ("A", V::Str)], n: 2 };
    if first_fails_io {
        let r = emf.format(&e1, &mut FailingOut);
        assert!(matches!(r, Err(IoStreamError::Io(_))), "a hard write error surfaces as an I/O error");
        core::mem::forget(r);
    } else {
        let mut o = CheckingOut { expected: "", n: 0, calls: 0, mismatch: false };
        let r = emf.format(&e1, &mut o);
        assert!(r.is_ok() && o.calls == 1);
    }
    let v2: u64 = kani::any();
    let e2 = E { items: [("A", V::Unsigned(v2)), ("B", V::Str)], n: 2 };
    let mut o2 = out(expected_text(T_METRIC_A_STRING_B, &[("\"A\":", v2)]));
    let r2 = emf.format(&e2, &mut o2);
    kani::cover!(true, "second call reached");
    assert!(r2.is_ok(), "same accept/reject decision as a fresh formatter");
    assert!(exact(&o2), "same record as a fresh formatter");
    core::mem::forget(emf);
}

full_harness! {
// @disabled-check (CBMC aborts at the 30 GB cap after 400 s, twice: not registered) C14 thorough timeout=3600 mem=30
// @encodes two consecutive Emf::format calls on ONE formatter: buffer resets at the start of format_with_multiplicity, finish()'s own resets
// @bounds validations off; first call: timestamp + metric "B" = Unsigned(any) + string "A", written successfully; second call: timestamp + metric "A" = Unsigned(any) + string "B" (the solver-chosen first-call outcome exhausted 30 GB and is case-split into this harness and whole_format_second_entry_after_io_error)
// @oracle the second call is Ok and writes exactly the record a fresh formatter writes for that entry
#[kani::unwind(6)]
pub fn whole_format_second_entry_after_success() {
    second_entry_after(false)
}
}

full_harness! {
// @check C14 thorough timeout=3600 mem=28
// @encodes Emf::format with a writer that fails (write_all_vectored error return out of finish()), then a second Emf::format on the same formatter
// @bounds validations off; first call: a valid entry into a writer whose first write fails hard; second call: timestamp + metric "A" = Unsigned(any) + string "B"
// @oracle the first call surfaces the I/O error; the second call is Ok and writes exactly the record a fresh formatter writes - no leftovers from the failed entry
// @probe 8,8,8
#[kani::unwind(6)]
pub fn whole_format_second_entry_after_io_error() {
    second_entry_after(true)
}
}

/// a writer that fails hard on its first call
struct FailingOut;
impl std::io::Write for FailingOut {
    fn write(&mut self, _buf: &[u8]) -> std::io::Result<usize> {
        Err(std::io::Error::from(std::io::ErrorKind::BrokenPipe))
    }
    fn write_vectored(&mut self, _bufs: &[std::io::IoSlice<'_>]) -> std::io::Result<usize> {
        Err(std::io::Error::from(std::io::ErrorKind::BrokenPipe))
    }
    fn flush(&mut self) -> std::io::Result<()> {
        Ok(())
    }
}

struct Empty;
impl Entry for Empty {
    fn write<'a>(&'a self, w: &mut impl EntryWriter<'a>) {
        w.timestamp(SystemTime::UNIX_EPOCH + Duration::from_millis(7));
    }
}

full_harness! {
// @check C02 thorough timeout=3600 mem=28
// @encodes Emf::format incl. finish() for an entry without values
// @bounds entry = timestamp only; validations off
// @oracle Ok and exactly the minimal record: one complete newline-terminated JSON line ("always emits a life sign")
#[kani::unwind(6)]
pub fn whole_format_empty_entry() {
    let mut e = hooks::emf_small(false, false);
    let mut o = out(T_EMPTY);
    let r = e.format(&Empty, &mut o);
    kani::cover!(true, "reached");
    assert!(r.is_ok());
    assert!(exact(&o), "exact record");
    core::mem::forget(e);
}
}

