//! C16 (kernels) — partial / interrupted / failing vectored writes never tear, duplicate or omit bytes.
//!
//! Real code executed: `buf::advance_slices`, `buf::write_all_vectored` (SmallVec collect/extend, IoSlice).
use metrique_writer_format_emf::verif_hooks as hooks;
use smallvec::SmallVec;
use std::io;

const SL: usize = 3; // max bytes per slice

struct Three {
    data: [u8; 3 * SL],
    len: [usize; 3],
}
impl Three {
    fn any() -> Self {
        let t = Three { data: kani::any(), len: [kani::any(), kani::any(), kani::any()] };
        kani::assume(t.len[0] <= SL && t.len[1] <= SL && t.len[2] <= SL);
        t
    }
    fn total(&self) -> usize {
        self.len[0] + self.len[1] + self.len[2]
    }
    fn slice(&self, i: usize) -> &[u8] {
        &self.data[i * SL..i * SL + self.len[i]]
    }
    /// byte `idx` of the concatenation
    fn byte(&self, idx: usize) -> u8 {
        if idx < self.len[0] {
            self.data[idx]
        } else if idx < self.len[0] + self.len[1] {
            self.data[SL + idx - self.len[0]]
        } else {
            self.data[2 * SL + idx - self.len[0] - self.len[1]]
        }
    }
}

fn concat_len(s: &[&[u8]]) -> usize {
    let mut n = 0;
    let mut i = 0;
    while i < s.len() {
        n += s[i].len();
        i += 1;
    }
    n
}
fn concat_byte(s: &[&[u8]], mut idx: usize) -> u8 {
    let mut i = 0;
    while i < s.len() {
        if idx < s[i].len() {
            return s[i][idx];
        }
        idx -= s[i].len();
        i += 1;
    }
    unreachable!()
}

// @check C16 quick timeout=600 mem=14
// @encodes buf::advance_slices
// @bounds 3 slices of symbolic length 0..=3 with symbolic bytes; every count <= total length
// @oracle what remains is exactly the concatenation's suffix starting at `count` (length + symbolic-index byte check); no leading empty slice remains, so a following write is never given an empty buffer list head
// @outside count > total (documented precondition: panics)
#[kani::proof]
#[kani::unwind(5)]
pub fn advance_slices_yields_exact_suffix() {
    let t = Three::any();
    let mut arr: [&[u8]; 3] = [t.slice(0), t.slice(1), t.slice(2)];
    let mut s: &mut [&[u8]] = &mut arr[..];
    let count: usize = kani::any();
    kani::assume(count <= t.total());
    hooks::advance_slices(&mut s, count);
    kani::cover!(count > 0 && count < t.total() && t.len[0] == 0, "partial advance across an empty first slice");
    kani::cover!(count == t.total() && count > 0, "everything consumed");
    let rest = concat_len(s);
    assert!(rest == t.total() - count, "exactly `count` bytes were consumed");
    assert!(s.is_empty() || !s[0].is_empty(), "no empty slice is left at the head");
    if count == t.total() {
        assert!(s.is_empty(), "all bytes consumed => nothing left to write (loop terminates)");
    }
    let j: usize = kani::any();
    kani::assume(j < rest);
    assert!(concat_byte(s, j) == t.byte(count + j), "remaining bytes are the suffix, in order, none duplicated or omitted");
}

/// a writer that follows a script and checks what it is offered on every call
#[derive(Clone, Copy, PartialEq)]
enum Act {
    Accept(usize),
    Interrupted,
    Hard,
}
struct ScriptedWriter<'t> {
    t: &'t Three,
    script: [Act; 4],
    calls: usize,
    accepted: usize,
    saw_zero: bool,
    saw_hard: bool,
    violated: bool,
}
impl io::Write for ScriptedWriter<'_> {
    fn write(&mut self, _buf: &[u8]) -> io::Result<usize> {
        panic!("the formatter writes with write_vectored");
    }
    fn write_vectored(&mut self, bufs: &[io::IoSlice<'_>]) -> io::Result<usize> {
        assert!(self.calls < 4, "more writer calls than the scripted bound");
        assert!(!self.saw_zero && !self.saw_hard, "no further calls after a zero-length write or a hard error");
        // what is offered must be exactly the not-yet-accepted suffix
        let mut offered = 0;
        let mut i = 0;
        while i < bufs.len() {
            offered += bufs[i].len();
            i += 1;
        }
        if offered != self.t.total() - self.accepted {
            self.violated = true;
        }
        assert!(bufs.is_empty() || !bufs[0].is_empty(), "never offers an empty head buffer");
        let j: usize = kani::any();
        kani::assume(j < offered);
        let mut idx = j;
        let mut k = 0;
        let mut b = 0u8;
        while k < bufs.len() {
            if idx < bufs[k].len() {
                b = bufs[k][idx];
                break;
            }
            idx -= bufs[k].len();
            k += 1;
        }
        if offered == self.t.total() - self.accepted && b != self.t.byte(self.accepted + j) {
            self.violated = true;
        }
        let act = self.script[self.calls];
        self.calls += 1;
        match act {
            Act::Accept(n) => {
                let n = if n > offered { offered } else { n };
                if n == 0 {
                    self.saw_zero = true;
                }
                self.accepted += n;
                Ok(n)
            }
            Act::Interrupted => Err(io::Error::from(io::ErrorKind::Interrupted)),
            Act::Hard => {
                self.saw_hard = true;
                Err(io::Error::from(io::ErrorKind::BrokenPipe))
            }
        }
    }
    fn flush(&mut self) -> io::Result<()> {
        Ok(())
    }
}

/// `mask`: bit 0 = Accept allowed, bit 1 = Interrupted allowed, bit 2 = Hard allowed
fn any_act(mask: u8) -> Act {
    let k: u8 = kani::any();
    kani::assume(k < 3 && (mask >> k) & 1 == 1);
    match k {
        0 => {
            let n: usize = kani::any();
            kani::assume(n <= 3 * SL);
            Act::Accept(n)
        }
        1 => Act::Interrupted,
        _ => Act::Hard,
    }
}

fn vectored(script: [Act; 4]) -> (bool, bool, usize) {
    let t = Three::any();
    kani::assume(t.total() >= 1);
    let bufs: SmallVec<[&[u8]; 3]> = SmallVec::from_buf([t.slice(0), t.slice(1), t.slice(2)]);
    let mut w = ScriptedWriter { t: &t, script, calls: 0, accepted: 0, saw_zero: false, saw_hard: false, violated: false };
    let r = hooks::write_all_vectored(bufs, &mut w);
    assert!(!w.violated, "every call is offered exactly the unwritten suffix");
    match &r {
        Ok(()) => {
            assert!(w.accepted == t.total(), "success means every byte was accepted exactly once");
            assert!(!w.saw_zero && !w.saw_hard);
        }
        Err(e) => {
            assert!(w.saw_zero || w.saw_hard, "errors only come from the writer");
            if w.saw_zero {
                assert!(e.kind() == io::ErrorKind::WriteZero, "a zero-length write is reported as WriteZero, not retried forever");
            } else {
                assert!(e.kind() == io::ErrorKind::BrokenPipe, "the writer's hard error is surfaced unchanged");
            }
        }
    }
    let out = (w.saw_zero, w.saw_hard, w.calls);
    core::mem::forget(r);
    out
}

// @check C16 quick timeout=2400 mem=24
// @encodes buf::write_all_vectored, buf::advance_slices, smallvec collect/extend, std::io::IoSlice
// @bounds 3 buffers of symbolic length 0..=3 and symbolic bytes (at least one byte in total); the writer accepts a solver-chosen number of bytes (any k incl. 0 and more than offered) on each of its first two calls, everything on the third
// @oracle at EVERY call the buffers offered are exactly the suffix of the record starting at the number of bytes accepted so far (length and symbolic-index byte check) - nothing duplicated or omitted however writes are split; Ok => every byte accepted exactly once; a zero-length write => WriteZero error and no further call
// @stubs smallvec::SmallVec::try_grow (asserts the inline capacity suffices: never spills)
// @outside more than 3 buffers per line (the formatter uses 3 or 5); multi-line records in finish()
#[kani::proof]
#[kani::unwind(5)]
#[kani::stub(smallvec::SmallVec::try_grow, crate::stubs::smallvec_try_grow)]
pub fn write_all_vectored_partial_writes() {
    let (zero, _hard, calls) = vectored([any_act(1), any_act(1), Act::Accept(3 * SL), Act::Accept(3 * SL)]);
    kani::cover!(!zero && calls == 3, "completed after two partial writes");
    kani::cover!(zero, "zero-length write");
}

// @check C16 quick timeout=2400 mem=24
// @encodes buf::write_all_vectored (Interrupted retry and hard-error arms), buf::advance_slices
// @bounds same buffers; first call: Interrupted or a hard error; second call: Interrupted, a hard error or accept any k; then accept everything
// @oracle an interrupted call is retried with exactly the same unwritten suffix (nothing duplicated); a hard error is surfaced unchanged and ends the calls; otherwise as write_all_vectored_partial_writes
#[kani::proof]
#[kani::unwind(5)]
#[kani::stub(smallvec::SmallVec::try_grow, crate::stubs::smallvec_try_grow)]
pub fn write_all_vectored_interrupts_and_errors() {
    let (_zero, hard, calls) = vectored([any_act(6), any_act(7), Act::Accept(3 * SL), Act::Accept(3 * SL)]);
    kani::cover!(!hard && calls >= 3, "completed after an interruption");
    kani::cover!(hard && calls == 2, "hard error on the second call");
}
