//! C12 (EMF half) — the sampling weight is a single integer within 1 of 1/rate, floor or ceiling below 2^53,
//! saturating below 2^-63, unbiased over the draw.
//!
//! Real code executed: `emf::rate_to_n_alpha`, `emf::rate_to_n` (through `verif_hooks`), rand's
//! `StandardUniform` f64 sampling on top of a scripted `RngCore`.
use metrique_writer_format_emf::verif_hooks as hooks;
use rand::RngCore;

pub struct ScriptedRng {
    pub word: u64,
    pub calls: u32,
}
impl RngCore for ScriptedRng {
    fn next_u32(&mut self) -> u32 {
        self.calls += 1;
        (self.word >> 32) as u32
    }
    fn next_u64(&mut self) -> u64 {
        self.calls += 1;
        self.word
    }
    fn fill_bytes(&mut self, dst: &mut [u8]) {
        self.calls += 1;
        for b in dst {
            *b = self.word as u8;
        }
    }
}

const TWO53: f64 = 9007199254740992.0;
const MIN_RATE: f32 = 1.0 / (i64::MAX as f32); // 2^-63

fn any_rate() -> f32 {
    let rate: f32 = kani::any();
    kani::assume(rate > 0.0 && rate <= 1.0);
    rate
}

fn any_rate_short_mantissa() -> f32 {
    let b: u32 = kani::any();
    kani::assume(b & ((1u32 << (23 - 8)) - 1) == 0);
    let rate = f32::from_bits(b);
    kani::assume(rate > 0.0 && rate <= 1.0);
    rate
}

// @check C12 quick timeout=900
// @encodes metrique_writer_format_emf::emf::rate_to_n_alpha
// @bounds f32 rates in [2^-63, 1] with the top 8 mantissa bits free and the low 15 zero, every exponent (the harness recomputes 1/rate with its own IEEE division; 12 free bits did not finish in 150 s)
// @oracle inv = 1/(rate as f64): below 2^53 n <= inv < n+1, alpha = (n+1) - inv lies in (0,1] and (n+1) - alpha == inv exactly (so alpha*n + (1-alpha)*(n+1) = 1/rate: unbiased); at or above 2^53 inv is an integer and n == inv
// @outside rates with more than 8 significant mantissa bits for the floor/alpha relation (the range statements below cover every rate)
#[kani::proof]
pub fn rate_to_n_alpha_short_mantissa() {
    let rate = any_rate_short_mantissa();
    kani::assume(rate >= MIN_RATE);
    let inv = 1.0 / (rate as f64);
    let (n, alpha) = hooks::rate_to_n_alpha(rate);
    kani::cover!(inv > 1000.0 && inv < TWO53 && alpha < 0.5, "large non-integer inverse rate reachable");
    kani::cover!(inv >= TWO53, "inverse rate above 2^53 reachable");
    kani::cover!(rate == 1.0, "rate one reachable");
    if inv < TWO53 {
        let nf = n as f64; // exact below 2^53
        assert!(nf <= inv && inv < nf + 1.0, "n is the floor of 1/rate");
        assert!(alpha > 0.0 && alpha <= 1.0, "alpha is a probability");
        assert!((nf + 1.0) - alpha == inv, "expected weight alpha*n + (1-alpha)*(n+1) equals 1/rate");
        if rate == 1.0 {
            assert!(n == 1 && alpha == 1.0, "rate 1 always yields weight 1");
        }
    } else {
        assert!((n as f64) == inv && n >= (1u64 << 53), "above 2^53 the weight is 1/rate itself");
        assert!(alpha >= 0.0 && alpha <= 2.0);
    }
}

// @check C12 quick timeout=300
// @encodes metrique_writer_format_emf::emf::rate_to_n_alpha
// @bounds every f32 rate in [2^-63, 1]
// @oracle n >= 1, alpha in [0,2]; for rates >= 2^-52 (1/rate <= 2^52): n <= 2^52, alpha in (0,1] and (n+1) - alpha lies in [n, n+1) i.e. the implied 1/rate has floor n
#[kani::proof]
pub fn rate_to_n_alpha_all_rates_ranges() {
    let rate = any_rate();
    kani::assume(rate >= MIN_RATE);
    let (n, alpha) = hooks::rate_to_n_alpha(rate);
    kani::cover!(n > 1_000_000, "small rate reachable");
    kani::cover!(n == 1 && alpha < 1.0, "rate between 1/2 and 1 reachable");
    assert!(n >= 1, "weight at least 1");
    assert!(alpha >= 0.0 && alpha <= 2.0);
    if rate >= 1.0 / 4503599627370496.0 {
        assert!(n <= (1u64 << 52));
        assert!(alpha > 0.0 && alpha <= 1.0, "alpha is a probability");
        let implied = (n as f64 + 1.0) - alpha;
        assert!(n as f64 <= implied && implied < n as f64 + 1.0, "implied 1/rate has floor n");
    }
    if rate == 1.0 {
        assert!(n == 1 && alpha == 1.0, "rate 1 always yields weight 1");
    }
    if rate == 0.5 {
        assert!(n == 2 && alpha == 1.0);
    }
}

// @check C12 quick timeout=900
// @encodes metrique_writer_format_emf::emf::rate_to_n, rate_to_n_alpha, rand::distr::StandardUniform::sample::<f64>
// @bounds f32 rates in (0,1] with 8 free mantissa bits, every exponent (incl. subnormals); every 64-bit word returned by the RNG (the harness calls rate_to_n_alpha a second time to learn alpha: two symbolic IEEE dividers, full mantissa did not finish in 600 s)
// @oracle below 2^-63: u64::MAX without consuming randomness; otherwise with (n, alpha) and the uniform draw u in [0,1) derived from the same word: weight == n iff u < alpha else n+1 (so P(weight = n) = alpha and the mean is n+1-alpha = 1/rate); exactly one word consumed; rate 1 => weight 1 whatever the draw
#[kani::proof]
pub fn rate_to_n_unbiased_choice() {
    use rand::Rng;
    let rate = any_rate_short_mantissa();
    let word: u64 = kani::any();
    let mut rng = ScriptedRng { word, calls: 0 };
    let w = hooks::rate_to_n(rate, &mut rng);
    kani::cover!(rate < MIN_RATE, "saturating region reachable");
    if rate < MIN_RATE {
        assert!(w == u64::MAX, "saturates for rates below 2^-63");
        assert!(rng.calls == 0);
    } else {
        let (n, alpha) = hooks::rate_to_n_alpha(rate);
        let mut rng2 = ScriptedRng { word, calls: 0 };
        let u: f64 = rng2.random::<f64>();
        assert!(u >= 0.0 && u < 1.0, "draw is uniform in [0,1)");
        kani::cover!(u < alpha && alpha < 1.0, "floor chosen with a non-trivial alpha");
        kani::cover!(u >= alpha, "ceiling chosen");
        if u < alpha {
            assert!(w == n, "floor with probability alpha");
        } else {
            assert!(w == n.saturating_add(1), "ceiling with probability 1-alpha");
        }
        assert!(rng.calls == 1, "one draw decides the weight");
        if rate == 1.0 {
            assert!(w == 1, "rate 1 always emits with weight 1");
        }
    }
}

// @check C12 quick timeout=900
// @encodes metrique_writer_format_emf::emf::rate_to_n, rate_to_n_alpha
// @bounds f32 rates in (0,1] with 8 free mantissa bits (all exponents), every 64-bit RNG word
// @oracle weight w against the harness' own 1/rate: |w - 1/rate| < 1 and w >= 1 below 2^53 (floor or ceiling, never further away); w in {n, n+1} above; u64::MAX below 2^-63
#[kani::proof]
pub fn rate_to_n_floor_or_ceiling_short_mantissa() {
    let rate = any_rate_short_mantissa();
    let mut rng = ScriptedRng { word: kani::any(), calls: 0 };
    let w = hooks::rate_to_n(rate, &mut rng);
    let inv = 1.0 / (rate as f64);
    kani::cover!(rate >= MIN_RATE && inv < TWO53 && (w as f64) > inv, "ceiling chosen");
    kani::cover!(rate >= MIN_RATE && inv < TWO53 && (w as f64) < inv, "floor chosen");
    if rate < MIN_RATE {
        assert!(w == u64::MAX, "saturates for rates below 2^-63");
    } else if inv < TWO53 {
        let wf = w as f64;
        assert!(wf - inv < 1.0 && inv - wf < 1.0, "weight within 1 of 1/rate");
        assert!(wf >= 1.0, "weight is at least one");
        if wf > inv {
            // the ceiling is only used when 1/rate is not an integer
            assert!(inv != (inv as u64) as f64, "ceiling only for non-integer 1/rate");
        }
    } else {
        let n = inv as u64;
        assert!(w == n || w == n + 1, "within 1 of 1/rate above 2^53");
    }
}
