//! Recording stream / entry / metric recorder for the queue harnesses.
use metrique_writer_core::{Entry, EntryConfig, EntryIoStream, EntryWriter, IoStreamError, MetricFlags, Observation, Unit,
    ValidationError, Value, ValueWriter};
use std::borrow::Cow;
use std::io;
use std::time::SystemTime;

pub const LOG: usize = 8;

/// an entry that carries just an id
pub struct IdEntry(pub u8);
impl Entry for IdEntry {
    fn write<'a>(&'a self, w: &mut impl EntryWriter<'a>) {
        w.value("id", &(self.0 as u64));
    }
}

struct IdVw<'l> {
    id: &'l mut Option<u64>,
    string: &'l mut bool,
}
impl ValueWriter for IdVw<'_> {
    fn string(self, _value: &str) {
        *self.string = true;
    }
    fn metric<'a>(
        self,
        distribution: impl IntoIterator<Item = Observation>,
        _unit: Unit,
        _dimensions: impl IntoIterator<Item = (&'a str, &'a str)>,
        _flags: MetricFlags<'_>,
    ) {
        for o in distribution {
            if let Observation::Unsigned(v) = o {
                *self.id = Some(v);
            }
        }
    }
    fn error(self, _error: ValidationError) {}
}
struct IdWriter {
    id: Option<u64>,
    string: bool,
}
impl<'a> EntryWriter<'a> for IdWriter {
    fn timestamp(&mut self, _t: SystemTime) {}
    fn value(&mut self, _name: impl Into<Cow<'a, str>>, value: &(impl Value + ?Sized)) {
        value.write(IdVw { id: &mut self.id, string: &mut self.string });
    }
    fn config(&mut self, _config: &'a dyn EntryConfig) {}
}

/// per-entry result script: 0 = Ok, 1 = Validation error, 2 = Io error
pub struct RecStream {
    pub seen: [u8; LOG],
    pub n: usize,
    pub script: [u8; LOG],
    pub reports: usize,
    pub flushes: usize,
    /// value of `n` at the most recent flush
    pub n_at_last_flush: usize,
    pub flush_fails: bool,
    pub dropped: *mut bool,
    pub validation_results: usize,
    /// called from Drop with the final state (lets a harness read the log of a stream that was dropped by the code under test)
    pub publish: Option<fn(&RecStream)>,
}
unsafe impl Send for RecStream {}

impl RecStream {
    pub fn new(script: [u8; LOG], dropped: *mut bool) -> Self {
        RecStream { seen: [0; LOG], n: 0, script, reports: 0, flushes: 0, n_at_last_flush: 0, flush_fails: false, dropped,
            validation_results: 0, publish: None }
    }
}
impl Drop for RecStream {
    fn drop(&mut self) {
        if let Some(f) = self.publish {
            f(self);
        }
        if !self.dropped.is_null() {
            unsafe { *self.dropped = true };
        }
    }
}
impl EntryIoStream for RecStream {
    fn next(&mut self, entry: &impl Entry) -> Result<(), IoStreamError> {
        let mut w = IdWriter { id: None, string: false };
        entry.write(&mut w);
        match w.id {
            None => {
                // the queue's own in-band error report entry (a string member, no id)
                assert!(w.string, "unknown entry shape reached the stream");
                self.reports += 1;
                Ok(())
            }
            Some(id) => {
                assert!(self.n < LOG, "stream log full");
                self.seen[self.n] = id as u8;
                let r = self.script[self.n];
                self.n += 1;
                match r {
                    0 => Ok(()),
                    1 => {
                        self.validation_results += 1;
                        Err(IoStreamError::Validation(ValidationError::invalid(String::new())))
                    }
                    _ => {
                        // any kind of I/O error, including the "transient" ones
                        let k: u8 = kani::any();
                        let kind = match k % 3 {
                            0 => io::ErrorKind::Other,
                            1 => io::ErrorKind::Interrupted,
                            _ => io::ErrorKind::BrokenPipe,
                        };
                        Err(IoStreamError::Io(io::Error::from(kind)))
                    }
                }
            }
        }
    }
    fn flush(&mut self) -> io::Result<()> {
        self.flushes += 1;
        self.n_at_last_flush = self.n;
        if self.flush_fails { Err(io::Error::from(io::ErrorKind::Other)) } else { Ok(()) }
    }
}

/// scripts over {Ok, `other`} only (other = 1 Validation or 2 Io): keeps one error type's construction/drop glue out of the formula
/// a stream that always succeeds (keeps every error branch of the queue out of the formula) and records ids
pub struct OkStream {
    pub seen: [u8; LOG],
    pub n: usize,
    pub flushes: usize,
    pub n_at_last_flush: usize,
    pub dropped: *mut bool,
    pub publish: Option<fn(&OkStream)>,
}
unsafe impl Send for OkStream {}
impl OkStream {
    pub fn new(dropped: *mut bool) -> Self {
        OkStream { seen: [0; LOG], n: 0, flushes: 0, n_at_last_flush: 0, dropped, publish: None }
    }
}
impl Drop for OkStream {
    fn drop(&mut self) {
        if let Some(f) = self.publish {
            f(self);
        }
        if !self.dropped.is_null() {
            unsafe { *self.dropped = true };
        }
    }
}
impl EntryIoStream for OkStream {
    fn next(&mut self, entry: &impl Entry) -> Result<(), IoStreamError> {
        let mut w = IdWriter { id: None, string: false };
        entry.write(&mut w);
        assert!(self.n < LOG, "stream log full");
        self.seen[self.n] = w.id.unwrap_or(255) as u8;
        self.n += 1;
        Ok(())
    }
    fn flush(&mut self) -> io::Result<()> {
        self.flushes += 1;
        self.n_at_last_flush = self.n;
        Ok(())
    }
}

pub fn any_script_of(other: u8) -> [u8; LOG] {
    let m: u8 = kani::any(); // bit i set => entry i fails
    let f = |i: u8| if m & (1 << i) != 0 { other } else { 0 };
    [f(0), f(1), f(2), f(3), f(4), f(5), f(6), f(7)]
}

pub fn any_script() -> [u8; LOG] {
    let s: [u8; LOG] = kani::any();
    // unrolled on purpose: keeps the harness' own loops out of the unwinding budget
    kani::assume(s[0] < 3 && s[1] < 3 && s[2] < 3 && s[3] < 3 && s[4] < 3 && s[5] < 3 && s[6] < 3 && s[7] < 3);
    s
}

// ---- metric recorder counting overflow reports
pub static mut OVERFLOWS: u64 = 0;
/// user code runs on the appender's thread inside the recorder callback; a harness can let the writer make
/// progress at exactly that point (one modelled interleaving point inside `push`)
pub static mut ON_OVERFLOW_REPORT: Option<fn()> = None;
pub struct CountingRecorder;
impl metrique_writer::sink::verif_hooks::MetricRecorder for CountingRecorder {
    fn record_histogram(&self, _metric: &'static str, _sink: &str, _value: u32) {}
    fn increment_counter(&self, metric: &'static str, _sink: &str, value: u64) {
        // "metrique_queue_overflows" is the only counter whose name has 'q' at index 9
        if metric.len() == 24 && metric.as_bytes()[9] == b'q' {
            unsafe {
                OVERFLOWS += value;
                if let Some(f) = ON_OVERFLOW_REPORT {
                    f();
                }
            }
        }
    }
    fn set_gauge(&self, _metric: &'static str, _sink: &str, _value: f64) {}
    fn increment_gauge(&self, _metric: &'static str, _sink: &str, _value: f64) {}
    fn decrement_gauge(&self, _metric: &'static str, _sink: &str, _value: f64) {}
}
