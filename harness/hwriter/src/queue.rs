//! C01 / C05 / C09 / C16 (sequential, operation-level): the real `Inner::push`, `ArrayQueue`, `Receiver::{consume,
//! drain_until_deadline, shut_down}` driven by symbolic schedules against a recording stream.
//!
//! No thread is spawned: the consumer side is the `Receiver` value the background thread would own
//! (`verif_hooks::unspawned`). Interleavings *inside* crossbeam's `force_push`/`pop` are outside the claim.
use crate::rec::*;
use crate::stubs;
use metrique_writer::sink::verif_hooks as hooks;
use std::time::Duration;

macro_rules! queue_harness {
    ($(#[$m:meta])* pub fn $name:ident() $body:block) => {
        $(#[$m])*
        #[kani::proof]
        #[kani::stub(tracing::dispatcher::get_default, crate::stubs::tracing_get_default)]
        #[kani::stub(tracing::callsite::DefaultCallsite::register, crate::stubs::tracing_register)]
        #[kani::stub(tracing::Event::dispatch, crate::stubs::tracing_event_dispatch)]
        #[kani::stub(tracing::__macro_support::__is_enabled, crate::stubs::tracing_is_enabled)]
        #[kani::stub(std::time::Instant::now, crate::stubs::instant_now)]
        #[kani::stub(alloc::fmt::format, crate::stubs::fmt_format)]
        #[kani::stub(crossbeam_utils::sync::Parker::park_deadline, crate::stubs::park_deadline)]
        #[kani::stub(crossbeam_utils::sync::Unparker::unpark, crate::stubs::unpark)]
        #[kani::stub(std::sync::mpsc::Receiver::try_recv, metrique_writer::sink::verif_hooks::model_try_recv)]
        pub fn $name() $body
    };
}
pub(crate) use queue_harness;

fn rig<const CAP: usize>(
    script: [u8; LOG],
    dropped: *mut bool,
    recorder: bool,
) -> (hooks::Tx<IdEntry>, hooks::Rx<RecStream, IdEntry>) {
    let rec: Option<Box<dyn hooks::MetricRecorder>> = if recorder { Some(Box::new(CountingRecorder)) } else { None };
    hooks::unspawned(RecStream::new(script, dropped), CAP, rec, Duration::from_secs(1), Duration::from_secs(30))
}

/// C01: with no overflow and no shutdown every pushed entry reaches the stream exactly once, in push order, whatever
/// the stream answers per entry; only the queue's own error report is ever added.
struct Fifo<const CAP: usize> {
    tx: hooks::Tx<IdEntry>,
    tx2: hooks::Tx<IdEntry>,
    rx: hooks::Rx<RecStream, IdEntry>,
    pushed: [u8; LOG],
    np: usize,
    next_a: u8,
    next_b: u8,
}
impl<const CAP: usize> Fifo<CAP> {
    fn new(script: [u8; LOG]) -> Self {
        let (tx, rx) = rig::<CAP>(script, core::ptr::null_mut(), false);
        let tx2 = tx.clone_handle(); // a clone appends to the same queue
        Fifo { tx, tx2, rx, pushed: [0; LOG], np: 0, next_a: 1, next_b: 101 }
    }
    fn step(&mut self) {
        let op: u8 = kani::any();
        kani::assume(op < 3);
        if op < 2 {
            if self.tx.queue_len() < CAP {
                // stay below capacity: overflow is C09's subject
                let id = if op == 0 { self.next_a } else { self.next_b };
                if op == 0 {
                    self.next_a += 1;
                    self.tx.push(IdEntry(id));
                } else {
                    self.next_b += 1;
                    self.tx2.push(IdEntry(id));
                }
                self.pushed[self.np] = id;
                self.np += 1;
            }
        } else {
            let (drained, _n) = self.rx.drain_until_deadline(stubs::far_future());
            assert!(drained, "a drain that is not cut short by the deadline empties the queue");
            assert!(self.tx.queue_len() == 0);
        }
    }
    fn finish(mut self, full: usize) {
        let (_d, _n) = self.rx.drain_until_deadline(stubs::far_future());
        let (emitted, validation, io) = self.rx.counters();
        let np = self.np;
        let pushed = self.pushed;
        let s = self.rx.stream();
        kani::cover!(np == full && validation + io >= 1, "full schedule with a failing entry");
        kani::cover!(np >= 2 && pushed[0] > 100 && pushed[1] < 100, "two producers interleaved");
        assert!(s.n == np, "every appended entry reaches the stream exactly once (count)");
        let i: usize = kani::any();
        kani::assume(i < np);
        assert!(s.seen[i] == pushed[i], "entries reach the stream in append order, none repeated or replaced");
        assert!(s.reports <= s.validation_results, "nothing else reaches the stream but the error report after a validation failure");
        assert!(emitted + validation + io == (np + s.reports) as u64, "each entry is accounted once as emitted / validation / io error");
        core::mem::forget(self);
    }
}

queue_harness! {
// @check C01,C16 quick timeout=1500 mem=14
// @encodes sink::background::Inner::push, Receiver::drain_until_deadline, Receiver::consume, Receiver::report_validation_error, crossbeam_queue::ArrayQueue::{new,force_push,pop,len}, crossbeam Unparker::unpark, rate_limited!
// @bounds capacity 2; schedule of 3 symbolic steps (append via handle A / append via a cloned handle B / writer drains) + final drain; per-entry stream result symbolic in {Ok, Validation}; the rate limiter's clock advances arbitrarily; no overflow (C09), no shutdown
// @oracle stream log == appended ids, same order, same count (symbolic index); extra stream calls are only the queue's error-report entry and never outnumber the Validation results; emitted+validation+io counters account each entry once
// @stubs tracing x4, Instant::now (monotone symbolic clock), alloc::fmt::format, Parker::park_deadline (never reached), mpsc::Receiver::try_recv (model)
// @outside real threads; interleavings inside force_push/pop (crossbeam linearizability assumed); park/unpark races; BoxEntrySink handle (thorough)
#[kani::unwind(4)]
pub fn fifo_cap2_steps3() {
    let mut f = Fifo::<2>::new(any_script_of(1));
    f.step();
    f.step();
    f.step();
    f.finish(2)
}
}

queue_harness! {
// @check C01,C16 quick timeout=1500 mem=14
// @encodes sink::background::Inner::push, Receiver::drain_until_deadline, Receiver::consume (Io branch), crossbeam_queue::ArrayQueue
// @bounds capacity 2; schedule append, append-or-drain (symbolic), drain; per-entry stream result symbolic in {Ok, Io}
// @oracle same as fifo_cap2_steps3: an I/O error for one entry neither prevents, repeats nor reorders any other entry; no report entry is written for I/O errors
// @stubs tracing x4, Instant::now, alloc::fmt::format, Parker::park_deadline, Unparker::unpark, mpsc::Receiver::try_recv
#[kani::unwind(4)]
pub fn fifo_cap2_io_errors() {
    let mut f = Fifo::<2>::new(any_script_of(2));
    f.step();
    f.step();
    f.finish(2)
}
}

queue_harness! {
// @check C01,C16 thorough timeout=3600 mem=20
// @encodes sink::background::Inner::push, Receiver::drain_until_deadline, Receiver::consume, Receiver::report_validation_error, crossbeam_queue::ArrayQueue
// @bounds capacity 2; 4 symbolic steps (append via handle A / via a cloned handle B / writer drains) + final drain; per-entry stream result symbolic in {Ok, Validation}
// @oracle same as fifo_cap2_steps3
// @stubs tracing x4, Instant::now, alloc::fmt::format, Parker::park_deadline, mpsc::Receiver::try_recv
#[kani::unwind(4)]
pub fn fifo_cap2_steps4() {
    let mut f = Fifo::<2>::new(any_script_of(1));
    f.step();
    f.step();
    f.step();
    f.step();
    f.finish(3)
}
}

queue_harness! {
// @disabled-check (CBMC exhausts 20 GB: not registered, see DESIGN.md C01) C01,C16 thorough timeout=7200 mem=30
// @encodes sink::background::Inner::push, Receiver::drain_until_deadline, Receiver::consume, Receiver::report_validation_error, crossbeam_queue::ArrayQueue
// @bounds capacity 3; 5 symbolic steps; per-entry stream results symbolic
// @oracle same as fifo_cap2_steps3
// @stubs tracing x4, Instant::now, alloc::fmt::format, Parker::park_deadline, mpsc::Receiver::try_recv
#[kani::unwind(5)]
pub fn fifo_cap3_steps5() {
    let mut f = Fifo::<3>::new(any_script());
    f.step();
    f.step();
    f.step();
    f.step();
    f.step();
    f.finish(3)
}
}

/// C09: reference ring (drop-oldest) model vs the real queue, overflow counter == displaced entries.
struct Ring<const CAP: usize> {
    tx: hooks::Tx<IdEntry>,
    rx: hooks::Rx<RecStream, IdEntry>,
    model: [u8; 3],
    mlen: usize,
    dropped: u64,
    popped: [u8; LOG],
    npop: usize,
    next: u8,
}
/// writer progress scheduled inside the overflow-report callback of the current append
static mut RING_RX: *mut hooks::Rx<RecStream, IdEntry> = core::ptr::null_mut();
static mut POP_IN_CALLBACK: bool = false;
static mut POPPED_IN_CALLBACK: bool = false;
fn writer_runs_during_callback() {
    unsafe {
        if POP_IN_CALLBACK && !RING_RX.is_null() {
            POPPED_IN_CALLBACK = (*RING_RX).pop_and_consume_one();
        }
    }
}

impl<const CAP: usize> Ring<CAP> {
    fn new() -> Self {
        let (tx, rx) = rig::<CAP>([0; LOG], core::ptr::null_mut(), true);
        unsafe {
            OVERFLOWS = 0;
            ON_OVERFLOW_REPORT = Some(writer_runs_during_callback);
        }
        Ring { tx, rx, model: [0; 3], mlen: 0, dropped: 0, popped: [0; LOG], npop: 0, next: 1 }
    }
    fn shift(&mut self) {
        self.model = [self.model[1], self.model[2], 0];
    }
    fn step(&mut self) {
        let push: bool = kani::any();
        if push {
            // the writer may take an entry while the appender is inside the overflow-report callback
            unsafe {
                RING_RX = &mut self.rx as *mut _;
                POP_IN_CALLBACK = kani::any();
                POPPED_IN_CALLBACK = false;
            }
            // must return: no blocking path is modelled (yield_now / park would fail the proof)
            self.tx.push(IdEntry(self.next));
            unsafe { RING_RX = core::ptr::null_mut() };
            if self.mlen == CAP {
                self.shift();
                self.model[CAP - 1] = self.next;
                self.dropped += 1;
                // reference order: the entry is displaced first, the report (and anything running during it) follows
                if unsafe { POP_IN_CALLBACK } {
                    assert!(unsafe { POPPED_IN_CALLBACK }, "a full queue has an entry for the writer");
                    self.popped[self.npop] = self.model[0];
                    self.npop += 1;
                    self.shift();
                    self.mlen -= 1;
                }
            } else {
                assert!(unsafe { !POPPED_IN_CALLBACK }, "no overflow report without an overflow");
                self.model[self.mlen] = self.next;
                self.mlen += 1;
            }
            self.next += 1;
            assert!(self.tx.queue_len() == self.mlen, "queue length follows the ring model");
        } else {
            let got = self.rx.pop_and_consume_one();
            assert!(got == (self.mlen > 0), "writer takes an entry iff one is queued");
            if got {
                self.popped[self.npop] = self.model[0];
                self.npop += 1;
                self.shift();
                self.mlen -= 1;
            }
        }
    }
    fn finish(mut self, steps: usize) {
        let (dropped, npop, popped) = (self.dropped, self.npop, self.popped);
        kani::cover!(dropped >= 2 && npop >= 1, "several overflows and a pop");
        kani::cover!(dropped == 0 && npop == steps / 2, "no overflow");
        let s = self.rx.stream();
        assert!(s.n == npop);
        let i: usize = kani::any();
        kani::assume(i < npop);
        assert!(s.seen[i] == popped[i], "what reaches the stream is exactly what the drop-oldest ring yields, in order");
        if i + 1 < npop {
            assert!(s.seen[i] < s.seen[i + 1], "append order preserved across overflow");
        }
        assert!(unsafe { OVERFLOWS } == dropped, "overflow counter equals the number of discarded entries");
        core::mem::forget(self);
    }
}

queue_harness! {
// @check C09 quick timeout=1500 mem=14
// @encodes sink::background::Inner::push (force_push + overflow counter), crossbeam_queue::ArrayQueue::{new,force_push,pop,len}, Receiver::consume
// @bounds capacity 1; 4 symbolic steps, each append or writer-takes-one (stalled writer = all appends); during an append that overflows, the writer may additionally take an entry while the appender is inside the overflow-report callback (one modelled interleaving point inside push)
// @oracle differential against a drop-oldest ring model in the harness: queue length, popped ids and order equal the model's; recorder's metrique_queue_overflows == entries displaced; append always returns
// @stubs tracing x4, Instant::now, alloc::fmt::format, Parker::park_deadline, mpsc::Receiver::try_recv
// @outside concurrent producers racing the wrap-around; the rate-limited log line
#[kani::unwind(3)]
pub fn overflow_cap1_steps4() {
    let mut r = Ring::<1>::new();
    r.step();
    r.step();
    r.step();
    r.step();
    r.finish(4)
}
}

queue_harness! {
// @check C09 quick timeout=1500 mem=14
// @encodes sink::background::Inner::push, crossbeam_queue::ArrayQueue, Receiver::consume
// @bounds capacity 2; 5 symbolic steps
// @oracle same as overflow_cap1_steps4
// @stubs tracing x4, Instant::now, alloc::fmt::format, Parker::park_deadline, mpsc::Receiver::try_recv
#[kani::unwind(4)]
pub fn overflow_cap2_steps5() {
    let mut r = Ring::<2>::new();
    r.step();
    r.step();
    r.step();
    r.step();
    r.step();
    r.finish(5)
}
}

queue_harness! {
// @check C09 thorough timeout=3600 mem=20
// @encodes sink::background::Inner::push, crossbeam_queue::ArrayQueue, Receiver::consume
// @bounds capacity 3; 7 symbolic steps
// @oracle same as overflow_cap1_steps4
// @stubs tracing x4, Instant::now, alloc::fmt::format, Parker::park_deadline, mpsc::Receiver::try_recv
#[kani::unwind(5)]
pub fn overflow_cap3_steps7() {
    let mut r = Ring::<3>::new();
    r.step();
    r.step();
    r.step();
    r.step();
    r.step();
    r.step();
    r.step();
    r.finish(7)
}
}

/// C05/H1: shut_down drains what is queued, flushes once after the last entry, drops the stream.
static mut FINAL_N: usize = 0;
static mut FINAL_FLUSHES: usize = 0;
static mut FINAL_N_AT_FLUSH: usize = 0;
static mut FINAL_SEEN: [u8; LOG] = [0; LOG];

fn publish_final(s: &OkStream) {
    unsafe {
        FINAL_N = s.n;
        FINAL_FLUSHES = s.flushes;
        FINAL_N_AT_FLUSH = s.n_at_last_flush;
        FINAL_SEEN = s.seen;
    }
}

fn shutdown_drains() {
    const CAP: usize = 2;
    let mut dropped_flag = false;
    let mut stream = OkStream::new(&mut dropped_flag as *mut bool);
    stream.publish = Some(publish_final);
    let (tx, mut rx): (hooks::Tx<IdEntry>, hooks::Rx<OkStream, IdEntry>) =
        hooks::unspawned(stream, CAP, None, Duration::from_secs(1), Duration::from_secs(30));
    let k: usize = kani::any();
    kani::assume(k <= CAP);
    let pre: bool = kani::any();
    if k >= 1 { tx.push(IdEntry(10)); }
    if k >= 2 { tx.push(IdEntry(11)); }
    // the writer may already have taken an entry before shutdown starts
    if pre { rx.pop_and_consume_one(); }
    kani::cover!(k == CAP && pre, "full queue, partially drained before shutdown");
    kani::cover!(k == 0, "empty queue at shutdown");
    unsafe { FINAL_N = usize::MAX };
    rx.shut_down();
    assert!(dropped_flag, "the stream has been dropped (closed) when shut_down returns");
    unsafe {
        assert!(FINAL_N == k, "every entry appended before shutdown was handed to the stream");
        let i: usize = kani::any();
        kani::assume(i < k);
        assert!(FINAL_SEEN[i] == 10 + i as u8, "in order, exactly once");
        assert!(FINAL_FLUSHES == 1, "exactly one flush during shut_down");
        assert!(FINAL_N_AT_FLUSH == k, "the flush happens after the last entry");
    }
    // late appends are silently discarded: nobody is left to hand them to the stream
    tx.push(IdEntry(99));
    assert!(tx.queue_len() <= CAP);
    core::mem::forget(tx);
}

queue_harness! {
// @check C05 quick timeout=1500 mem=14
// @encodes sink::background::Receiver::shut_down, drain_until_deadline, consume, flush_stream, Inner::push
// @bounds capacity 2; k <= 2 entries appended, possibly one already taken by the writer; every stream call succeeds
// @oracle on return: stream dropped; log == all k ids in order; exactly one flush, after the last entry; an append afterwards neither panics nor reaches the stream
// @stubs tracing x4, Instant::now, alloc::fmt::format, Parker::park_deadline, mpsc::Receiver::try_recv
// @outside JoinHandle::drop/join and AttachHandle (threads); the forgotten-handle path of run() (see run_exits_when_last_handle_dropped)
#[kani::unwind(4)]
pub fn shutdown_drains_flushes_closes() {
    shutdown_drains()
}
}

queue_harness! {
// @check C05 quick timeout=900 mem=14
// @encodes sink::background::Receiver::{drain_until_deadline, flush_stream, shut_down}, Inner::push
// @bounds capacity 2; one entry appended and written by a regular drain + periodic flush, then a solver-chosen number (0..=2) of further entries appended before shut_down
// @oracle the entries written by shut_down's own drain are flushed before the stream is closed: the last flush happens after the last entry, whatever was already flushed before; the stream is dropped; every entry reaches the stream once, in order
// @stubs tracing x4, Instant::now, alloc::fmt::format, Parker::park_deadline, Unparker::unpark, mpsc::Receiver::try_recv
#[kani::unwind(4)]
pub fn shutdown_flushes_what_it_drains() {
    const CAP: usize = 2;
    let mut dropped_flag = false;
    let mut stream = OkStream::new(&mut dropped_flag as *mut bool);
    stream.publish = Some(publish_final);
    let (tx, mut rx): (hooks::Tx<IdEntry>, hooks::Rx<OkStream, IdEntry>) =
        hooks::unspawned(stream, CAP, None, Duration::from_secs(1), Duration::from_secs(30));
    tx.push(IdEntry(10));
    let (drained, n) = rx.drain_until_deadline(stubs::far_future());
    assert!(drained && n == 1);
    rx.flush_stream(); // the periodic flush of the run loop
    let more: u8 = kani::any();
    kani::assume(more <= 2);
    if more >= 1 { tx.push(IdEntry(11)); }
    if more >= 2 { tx.push(IdEntry(12)); }
    kani::cover!(more == 2, "two entries arrive between the last periodic flush and shutdown");
    unsafe { FINAL_N = usize::MAX };
    rx.shut_down();
    assert!(dropped_flag, "stream closed");
    unsafe {
        assert!(FINAL_N == 1 + more as usize, "everything appended before shutdown is written");
        let i: usize = kani::any();
        kani::assume(i < FINAL_N);
        assert!(FINAL_SEEN[i] == 10 + i as u8, "in order, exactly once");
        assert!(FINAL_FLUSHES == 2, "one periodic flush and exactly one flush during shut_down");
        assert!(FINAL_N_AT_FLUSH == FINAL_N, "the final flush covers what shut_down itself wrote");
    }
    core::mem::forget(tx);
}
}
