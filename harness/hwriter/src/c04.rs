//! C04 (kernel + ghost queue) — a completed flush means everything appended before it was written and flushed.
//!
//! Real code executed: `WakerTracker::{handle_waiting_wakers, will_progress_on_drained_queue}`, tokio `oneshot`
//! senders as wakers. The queue is a ghost counter model maintained by the harness (it supplies the tracker's
//! documented preconditions P1/P2); the flush-request channel is the model queue in `verif_hooks`.
use crate::queue::queue_harness;
use metrique_writer::sink::verif_hooks as hooks;
use tokio::sync::oneshot::error::TryRecvError;

/// ghost world: entries are numbered; `pushed` = how many were appended so far, `popped` = how many the writer has
/// handed to the stream, `flushed_upto` = value of `popped` at the last stream flush.
struct Ghost<const CAP: usize> {
    pushed: u64,
    popped: u64,
    displaced: u64,
    flushed_upto: u64,
    flushes: u32,
}
impl<const CAP: usize> Ghost<CAP> {
    fn in_queue(&self) -> u64 {
        self.pushed - self.popped - self.displaced
    }
    /// producers append an arbitrary number of entries (overflow displaces the oldest)
    fn produce(&mut self) {
        let n: u8 = kani::any();
        kani::assume(n <= 3);
        self.pushed += n as u64;
        let over = self.in_queue().saturating_sub(CAP as u64);
        self.displaced += over;
    }
    /// the writer drains: either until empty (Drained) or it is cut short by the deadline having taken >= 1 entries
    fn drain(&mut self) -> (bool, usize) {
        let q = self.in_queue();
        let drained: bool = kani::any();
        let n = if drained {
            q
        } else {
            let k: u64 = kani::any();
            kani::assume(k >= 1 && k <= q); // HitDeadline with 0 entries does not happen (see the tracker's doc)
            k
        };
        self.popped += n;
        (drained, n as usize)
    }
}

struct Req {
    rx: tokio::sync::oneshot::Receiver<()>,
    /// entries that had been appended when the request was made: all of them must be out before it completes
    need: u64,
    done: bool,
}

fn completed(rx: &mut tokio::sync::oneshot::Receiver<()>) -> bool {
    matches!(rx.try_recv(), Err(TryRecvError::Closed))
}

/// one writer-loop iteration: drain, then handle wakers (exactly the two calls `Receiver::run` makes).
/// Between the end of the drain and the moment the tracker reads the flush-request channel, producers may append
/// more entries and send a request (`late`): the drain result then describes an older queue state.
fn writer_step<const CAP: usize>(t: &mut hooks::Tracker, g: &mut Ghost<CAP>, late: &mut Option<Req>) -> bool {
    let (drained, n) = g.drain();
    let popped_now = g.popped;
    if late.is_none() && kani::any() {
        g.produce();
        *late = Some(Req { rx: hooks::send_flush(), need: g.pushed, done: false });
    }
    let mut flushed = false;
    t.handle_waiting_wakers(|| CAP, || flushed = true, drained, n);
    if flushed {
        g.flushed_upto = popped_now;
        g.flushes += 1;
    }
    drained
}

fn check_req<const CAP: usize>(r: &mut Req, g: &Ghost<CAP>) {
    if !r.done && completed(&mut r.rx) {
        r.done = true;
        // S1: every entry appended before the request has been handed to the stream (or displaced) ...
        assert!(g.popped + g.displaced >= r.need, "flush completed although an earlier entry is still queued");
        // ... and the stream was flushed after the last of them
        assert!(g.flushed_upto + g.displaced >= r.need, "flush completed without a stream flush after the last earlier entry");
    }
}

/// the scenario shared by the quick / thorough harnesses: `ITERS` writer iterations, request 1 may arrive before
/// iteration 1, request 2 (only if `TWO`) before iteration 2
fn scenario<const ITERS: usize, const TWO: bool>() -> bool {
    const CAP: usize = 2;
    let mut t = hooks::Tracker::new();
    let mut g: Ghost<CAP> = Ghost { pushed: 0, popped: 0, displaced: 0, flushed_upto: 0, flushes: 0 };

    // iteration 1
    g.produce();
    let r1_now: bool = kani::any();
    let mut r1 = if r1_now { Some(Req { rx: hooks::send_flush(), need: g.pushed, done: false }) } else { None };
    g.produce(); // appended after the request: not covered by it
    let mut late: Option<Req> = None;
    let _d1 = writer_step(&mut t, &mut g, &mut late);
    if let Some(r) = r1.as_mut() { check_req(r, &g); }
    if let Some(r) = late.as_mut() { check_req(r, &g); }
    let popped_after_1 = g.popped;
    let progress_1 = t.will_progress_on_drained_queue();
    if r1_now {
        assert!(progress_1 && t.entries_before_wake() == CAP, "a new request waits for one queue-capacity of entries");
    } else if late.is_none() {
        assert!(!progress_1, "nothing pending => the writer may park");
    }

    // iteration 2
    g.produce();
    let r2_now: bool = if TWO { kani::any() } else { false };
    let mut r2 = if r2_now { Some(Req { rx: hooks::send_flush(), need: g.pushed, done: false }) } else { None };
    let d2 = writer_step(&mut t, &mut g, &mut late);
    if let Some(r) = r1.as_mut() { check_req(r, &g); }
    if let Some(r) = r2.as_mut() { check_req(r, &g); }
    if let Some(r) = late.as_mut() { check_req(r, &g); }
    if progress_1 && d2 {
        // S2: a drained iteration makes progress on the pending request
        assert!(r1.as_ref().map(|r| r.done).unwrap_or(true), "drained queue completes the pending flush");
    }
    let mut any_drained = d2;

    // iteration 3
    g.produce();
    let d3 = writer_step(&mut t, &mut g, &mut late);
    if let Some(r) = r1.as_mut() { check_req(r, &g); }
    if let Some(r) = r2.as_mut() { check_req(r, &g); }
    if let Some(r) = late.as_mut() { check_req(r, &g); }
    any_drained |= d3;

    if ITERS >= 4 {
        g.produce();
        let d4 = writer_step(&mut t, &mut g, &mut late);
        if let Some(r) = r1.as_mut() { check_req(r, &g); }
        if let Some(r) = r2.as_mut() { check_req(r, &g); }
        if let Some(r) = late.as_mut() { check_req(r, &g); }
        any_drained |= d4;
    }

    // L1: r1 was picked up in iteration 1; it must be complete once CAP more entries were popped or a drain emptied the queue
    if let Some(r) = r1.as_ref() {
        if any_drained || g.popped - popped_after_1 >= CAP as u64 {
            assert!(r.done, "bounded writer progress completes the flush even if producers never stop");
        }
    }
    kani::cover!(r1.as_ref().map(|r| r.done).unwrap_or(false) && !any_drained, "request completed although the queue never drained");
    kani::cover!(g.displaced > 0 && r1.as_ref().map(|r| r.done).unwrap_or(false), "overflow happened while a flush was pending");
    kani::cover!(late.as_ref().map(|r| r.done).unwrap_or(false), "a request that raced with the end of a drain completed");
    let r2_done = r2.as_ref().map(|r| r.done).unwrap_or(false);
    core::mem::forget(t);
    core::mem::forget(r1);
    core::mem::forget(r2);
    core::mem::forget(late);
    r2_done
}

queue_harness! {
// @check C04 quick timeout=1800 mem=20
// @encodes sink::background::WakerTracker::{new, handle_waiting_wakers, will_progress_on_drained_queue}, tokio::sync::oneshot::{channel, Sender::drop, Receiver::try_recv}
// @bounds queue capacity 2; 3 writer iterations; before each: producers append 0..=3 entries (overflow displaces the oldest); one flush request may arrive before iteration 1, and one more may race with the end of any drain (sent, together with fresh appends, after the drain returned but before the tracker reads the request channel); each drain is symbolically Drained or HitDeadline with a symbolic count >= 1 consistent with the ghost queue
// @oracle S1: whenever the request's future completes, every entry appended before it was handed to the stream or displaced, and flush_stream ran after the last of them; S2: will_progress_on_drained_queue() holds exactly while a request is pending and the next Drained iteration completes it; L1: the request is complete after at most `capacity` further popped entries or the first Drained iteration, even if producers never stop
// @stubs mpsc::Receiver::try_recv (model queue in verif_hooks), tracing x4, Instant::now, alloc::fmt::format, Parker::park_deadline, Unparker::unpark
// @outside the run loop's park/deadline glue; cross-thread happens-before between append and request (the ghost model orders them); 'completes immediately after shutdown' (needs mpsc::Sender::send: Kani ICE)
// Kani's value extraction for this harness needs more than 48 GB (measured three times), so a counterexample is
// replayed natively with these canonical schedules instead (driver: a probe only counts if its native panic message is
// an assertion the solver refuted). Order of the harness' kani::any() calls: produce n, r1_now, produce n, then per
// writer step: drained, [k if not drained], [late? and its produce n while no late request exists], produce n before
// the next step.
// @probevals late_request_with_two_appends_after_drained_then_deadline_cut_drain 1:0,1:0,1:0,1:1,1:1,1:2,1:0,1:0,8:1,1:0,1:1
// @probevals request_then_two_appends_hit_deadline_then_drained 1:2,1:1,1:1,1:0,8:1,1:0,1:1,1:1,1:0,1:0,1:1,1:0
// @probevals request_with_full_queue_and_late_request 1:2,1:1,1:0,1:0,8:2,1:1,1:2,1:0,1:1,1:0,1:1
#[kani::unwind(4)]
pub fn tracker_one_request() {
    let _ = scenario::<3, false>();
}
}

queue_harness! {
// @disabled-check (CBMC exhausts 20 GB within 3 minutes: not registered, see DESIGN.md C04) C04 thorough timeout=7200 mem=40
// @encodes sink::background::WakerTracker::{handle_waiting_wakers, will_progress_on_drained_queue}, tokio oneshot
// @bounds capacity 2; 4 writer iterations; two flush requests (before iterations 1 and 2)
// @oracle same as tracker_one_request, for both requests (a request arriving while another is pending is only collected after the first batch completed, and still satisfies S1)
// @stubs same as tracker_one_request
#[kani::unwind(4)]
pub fn tracker_two_requests() {
    let r2_done = scenario::<4, true>();
    kani::cover!(r2_done, "second request completed");
}
}

queue_harness! {
// @check C04 quick timeout=900 mem=14
// @encodes sink::background::WakerTracker::{handle_waiting_wakers, will_progress_on_drained_queue}
// @bounds no flush request is ever sent; 3 writer iterations with arbitrary producer bursts and drain results
// @oracle the stream is never flushed on behalf of a request and will_progress_on_drained_queue() stays false: an idle tracker never keeps the writer thread spinning
// @stubs mpsc::Receiver::try_recv (model queue), tracing x4, Instant::now, alloc::fmt::format, Parker::park_deadline, Unparker::unpark
#[kani::unwind(4)]
pub fn tracker_without_requests_stays_idle() {
    const CAP: usize = 2;
    let mut t = hooks::Tracker::new();
    let mut g: Ghost<CAP> = Ghost { pushed: 0, popped: 0, displaced: 0, flushed_upto: 0, flushes: 0 };
    let mut i = 0;
    while i < 3 {
        g.produce();
        let (drained, n) = g.drain();
        let mut flushed = false;
        t.handle_waiting_wakers(|| CAP, || flushed = true, drained, n);
        assert!(!flushed, "no request, no flush on behalf of one");
        assert!(!t.will_progress_on_drained_queue(), "nothing pending: the writer may park");
        assert!(t.waiting() == 0 && t.entries_before_wake() == 0);
        i += 1;
    }
    kani::cover!(g.popped >= 3, "entries were processed");
    core::mem::forget(t);
}
}
