//! C12 (sampler half) — a fixed-fraction sampler emits exactly when its draw is at most the rate and passes that
//! same rate on. Real code: `metrique_writer::sample::FixedFractionSample::{with_rng, format}`, rand's
//! `StandardUniform` f32 sampling over a scripted `RngCore`.
use metrique_writer::sample::FixedFractionSample;
use metrique_writer_core::format::Format;
use metrique_writer_core::sample::SampledFormat;
use metrique_writer_core::{Entry, EntryWriter, IoStreamError};
use rand::{Rng, RngCore};
use std::io;

struct ScriptedRng {
    word: u32,
    calls: u32,
}
impl RngCore for ScriptedRng {
    fn next_u32(&mut self) -> u32 {
        self.calls += 1;
        self.word
    }
    fn next_u64(&mut self) -> u64 {
        self.calls += 1;
        ((self.word as u64) << 32) | self.word as u64
    }
    fn fill_bytes(&mut self, dst: &mut [u8]) {
        self.calls += 1;
        for b in dst {
            *b = self.word as u8;
        }
    }
}

/// the inner format records into statics (the sampler only hands its format back for the default RNG type)
static mut PLAIN_CALLS: u32 = 0;
static mut SAMPLED_CALLS: u32 = 0;
static mut RATE_BITS: u32 = 0;
struct RecFormat;
impl Format for RecFormat {
    fn format(&mut self, _entry: &impl Entry, _output: &mut impl io::Write) -> Result<(), IoStreamError> {
        unsafe { PLAIN_CALLS += 1 };
        Ok(())
    }
}
impl SampledFormat for RecFormat {
    fn format_with_sample_rate(&mut self, _entry: &impl Entry, _output: &mut impl io::Write, rate: f32) -> Result<(), IoStreamError> {
        unsafe {
            SAMPLED_CALLS += 1;
            RATE_BITS = rate.to_bits();
        }
        Ok(())
    }
}
struct E;
impl Entry for E {
    fn write<'a>(&'a self, _w: &mut impl EntryWriter<'a>) {}
}
struct Sink;
impl io::Write for Sink {
    fn write(&mut self, b: &[u8]) -> io::Result<usize> {
        Ok(b.len())
    }
    fn flush(&mut self) -> io::Result<()> {
        Ok(())
    }
}

// @check C12 quick timeout=600 mem=14
// @encodes metrique_writer::sample::FixedFractionSample::{with_rng, format}, rand::distr::StandardUniform::sample::<f32>
// @bounds every f32 rate in (0,1] (incl. subnormals), every 32-bit word returned by the RNG
// @oracle with u = the uniform f32 in [0,1) rand derives from the same word: the inner format is called (exactly once, through format_with_sample_rate, with exactly the configured rate) iff u <= rate; otherwise nothing is formatted and Ok is returned; rate 1 always emits; one draw per entry
#[kani::proof]
#[kani::unwind(3)]
pub fn fixed_fraction_emits_iff_draw_at_most_rate() {
    let rate: f32 = kani::any();
    kani::assume(rate > 0.0 && rate <= 1.0);
    let word: u32 = kani::any();
    let mut s = FixedFractionSample::with_rng(RecFormat, rate, ScriptedRng { word, calls: 0 });
    let r = s.format(&E, &mut Sink);
    assert!(r.is_ok());
    let u: f32 = ScriptedRng { word, calls: 0 }.random::<f32>();
    assert!(u >= 0.0 && u < 1.0, "draw is uniform in [0,1)");
    let (plain, sampled, rate_bits) = unsafe { (PLAIN_CALLS, SAMPLED_CALLS, RATE_BITS) };
    kani::cover!(u <= rate && rate < 0.5, "emitted at a low rate");
    kani::cover!(u > rate, "dropped");
    assert!(plain == 0, "a sampler only uses the sampled entry point");
    if u <= rate {
        assert!(sampled == 1 && rate_bits == rate.to_bits(), "emitted once, with exactly the sampler's rate");
    } else {
        assert!(sampled == 0, "not emitted when the draw exceeds the rate");
    }
    if rate == 1.0 {
        assert!(sampled == 1, "rate 1 always emits");
    }
}
