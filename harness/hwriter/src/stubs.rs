//! Environment stubs = trusted base of the background-queue harnesses (see DESIGN.md section 1).
use std::time::{Duration, Instant};

pub fn tracing_get_default<T, F>(mut f: F) -> T
where
    F: FnMut(&tracing::Dispatch) -> T,
{
    f(&tracing::Dispatch::none())
}
pub fn tracing_register(_this: &'static tracing::callsite::DefaultCallsite) -> tracing::subscriber::Interest {
    tracing::subscriber::Interest::never()
}
pub fn tracing_event_dispatch<'a: 'a>(
    _metadata: &'static tracing::Metadata<'static>,
    _fields: &'a tracing::field::ValueSet<'_>,
) {
}
pub fn tracing_is_enabled(_meta: &tracing::Metadata<'static>, _interest: tracing::subscriber::Interest) -> bool {
    false
}

/// monotone clock: every reading advances by an arbitrary amount >= MIN_STEP_NS
pub static mut CLOCK_NS: u64 = 0;
pub static mut MIN_STEP_NS: u64 = 0;
pub fn instant_now() -> Instant {
    unsafe {
        let base: Instant = core::mem::zeroed();
        let step: u32 = kani::any();
        CLOCK_NS += MIN_STEP_NS + step as u64;
        base + Duration::from_nanos(CLOCK_NS)
    }
}
pub fn far_future() -> Instant {
    unsafe {
        let base: Instant = core::mem::zeroed();
        base + Duration::from_secs(1 << 40)
    }
}

pub fn fmt_format(_args: core::fmt::Arguments<'_>) -> String {
    String::new()
}

/// the writer thread is never actually parked in a sequential harness
pub fn park_deadline(_p: &crossbeam_utils::sync::Parker, _deadline: Instant) {}

/// `rate_limit::time_since_arbitrary_epoch`: arbitrary non-decreasing time since the (arbitrary) epoch
pub static mut EPOCH_SECS: u64 = 0;
pub fn time_since_arbitrary_epoch() -> Duration {
    unsafe {
        let step: u16 = kani::any();
        EPOCH_SECS += step as u64;
        Duration::from_secs(EPOCH_SECS)
    }
}

/// waking the (non-existent) writer thread: no-op. Wake-up/park races are outside the claim.
pub fn unpark(_u: &crossbeam_utils::sync::Unparker) {}
