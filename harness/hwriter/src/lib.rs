#![allow(dead_code, unused_imports, unexpected_cfgs, static_mut_refs)]
#[cfg(kani)]
pub mod stubs;
#[cfg(kani)]
pub mod rec;
#[cfg(kani)]
pub mod queue;
#[cfg(kani)]
pub mod c04;
#[cfg(kani)]
pub mod c12;

// written by /verif/check into a scratch copy of this crate when a counterexample is replayed natively
#[cfg(all(kani, verif_playback))]
mod playback_gen;
