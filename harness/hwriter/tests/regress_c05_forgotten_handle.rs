//! Native regression guard for the repaired C05 defect (known_findings.txt "fixed: property=C05 5f619ae", DESIGN.md
//! section 5): `Receiver::run` cannot be executed under Kani (span enter/exit and thread parking reach thread-locals),
//! so the solver-side C05 harnesses cover `shut_down` only and would not notice if `run` again kept the queue state
//! alive. This test replays the recorded failing history against /repo's working tree with the ordinary toolchain:
//! forget the join handle, append two entries, drop the last queue handle -> the writer thread must write both
//! entries, close (drop) the stream and exit. It never fails; it prints REGRESSION-PRESENT / REGRESSION-ABSENT and
//! `./check C05` turns PRESENT into a VIOLATION. Same scenario as /verif/findings/c05_forgotten_handle_never_exits.rs.
use metrique_writer::sink::BackgroundQueueBuilder;
use metrique_writer::{Entry, EntryIoStream, EntrySink, EntryWriter, IoStreamError};
use std::sync::Arc;
use std::sync::atomic::{AtomicBool, AtomicUsize, Ordering};
use std::time::{Duration, Instant};

struct E(u64);
impl Entry for E {
    fn write<'a>(&'a self, w: &mut impl EntryWriter<'a>) {
        w.value("v", &self.0);
    }
}

struct Stream {
    seen: Arc<AtomicUsize>,
    closed: Arc<AtomicBool>,
}
impl EntryIoStream for Stream {
    fn next(&mut self, _entry: &impl Entry) -> Result<(), IoStreamError> {
        self.seen.fetch_add(1, Ordering::SeqCst);
        Ok(())
    }
    fn flush(&mut self) -> std::io::Result<()> {
        Ok(())
    }
}
impl Drop for Stream {
    fn drop(&mut self) {
        self.closed.store(true, Ordering::SeqCst);
    }
}


#[test]
fn forgotten_handle_thread_exits_after_last_queue_dropped() {
    let seen = Arc::new(AtomicUsize::new(0));
    let closed = Arc::new(AtomicBool::new(false));
    let (queue, handle) = BackgroundQueueBuilder::new()
        .flush_interval(Duration::from_millis(20))
        .build::<E>(Stream { seen: seen.clone(), closed: closed.clone() });
    handle.forget();
    queue.append(E(1));
    queue.append(E(2));
    drop(queue); // last queue handle gone
    let deadline = Instant::now() + Duration::from_secs(30); // 1500 flush intervals
    while Instant::now() < deadline && !closed.load(Ordering::SeqCst) {
        std::thread::sleep(Duration::from_millis(10));
    }
    let ok = seen.load(Ordering::SeqCst) == 2 && closed.load(Ordering::SeqCst);
    println!(
        "REGRESSION-{} c05_forgotten_handle entries_written={} stream_closed={} (after BackgroundQueueJoinHandle::forget() and dropping the last queue handle, waited up to 30 s)",
        if ok { "ABSENT" } else { "PRESENT" },
        seen.load(Ordering::SeqCst),
        closed.load(Ordering::SeqCst)
    );
}
