//! C11 (partial) — exponential histograms conserve counts and stay within their stated error.
//!
//! Real code executed: `metrique_aggregation::histogram::{ExponentialAggregationStrategy, AtomicExponentialAggregationStrategy}
//! ::{new, record_many}` (scale by 2^10, clamp to u64, bucket with grouping power 4 / max power 64) through the public
//! `AggregationStrategy` traits, and the bucket layout of the `histogram` crate as used (Config::new(4, 64)).
//! `drain()` (976-bucket filter/collect) does not finish under CBMC; the midpoint arithmetic it performs is checked
//! as integer lemmas over the same bucket bounds instead. Sort-and-merge is outside (3 symbolic floats: OOM).
use histogram::{Config, Histogram};

/// reference bucket bounds for grouping power 4, written from the histogram crate's documentation
/// (linear below 2^5 = 32, then 16 sub-buckets per power of two)
fn ref_bounds(x: u64) -> (u64, u64) {
    if x < 32 {
        (x, x)
    } else {
        let p = 63 - x.leading_zeros() as u64; // floor(log2 x) >= 5
        let w = 1u64 << (p - 4); // bucket width
        let lo = x & !(w - 1);
        (lo, lo + (w - 1))
    }
}

// @check C11 quick timeout=900 mem=14
// @encodes histogram::Histogram::{with_config, add, as_slice} with Config::new(4, 64) (the layout metrique uses); bucket placement of every u64
// @bounds every u64 value, every count; two values x <= y
// @oracle exactly one bucket receives the count (symbolic index: every other bucket stays 0) => counts are conserved; bucket index is monotone in the value; 976 buckets
// @outside the library's own drain() iteration
#[kani::proof]
#[kani::unwind(3)]
pub fn one_bucket_per_value_and_monotone() {
    let cfg = Config::new(4, 64).unwrap();
    assert!(cfg.total_buckets() == 976);
    let mut h = Histogram::with_config(&cfg);
    let x: u64 = kani::any();
    let c: u64 = kani::any();
    kani::assume(c > 0);
    h.add(x, c).unwrap();
    let s = h.as_slice();
    assert!(s.len() == 976);
    let i: usize = kani::any();
    let j: usize = kani::any();
    kani::assume(i < 976 && j < 976 && i != j);
    kani::cover!(s[i] == c && i > 900, "value in one of the top buckets");
    assert!(!(s[i] != 0 && s[j] != 0), "at most one bucket is touched");
    assert!(s[i] == 0 || s[i] == c, "the touched bucket holds exactly the count");
    // monotone placement: a larger value never lands in a lower bucket
    let y: u64 = kani::any();
    kani::assume(y >= x);
    let mut h2 = Histogram::with_config(&cfg);
    h2.add(y, 1).unwrap();
    let s2 = h2.as_slice();
    let a: usize = kani::any();
    let b: usize = kani::any();
    kani::assume(a < 976 && b < 976);
    if s[a] != 0 && s2[b] != 0 {
        assert!(a <= b, "bucket index is monotone in the value");
    }
    core::mem::forget(h);
    core::mem::forget(h2);
}

// @check C11 quick timeout=900 mem=14
// @encodes reference bucket bounds (grouping power 4) + the midpoint / scale-down arithmetic of drain() as integer lemmas
// @bounds every u64 scaled value x (= value * 1024)
// @oracle lo <= x <= hi; width = hi-lo+1 is 1 below 32 and lo/16 rounded down to a power of two above; midpoint m = lo + (hi-lo)/2 satisfies |m - x| * 32 <= x for x >= 32 (relative error <= 1/32 = 3.125% <= 6.25%) and m == x below 32, i.e. values under 32/1024 = 1/32 are exact to 1/1024
#[kani::proof]
pub fn midpoint_within_relative_error() {
    let x: u64 = kani::any();
    let (lo, hi) = ref_bounds(x);
    kani::cover!(x > (1u64 << 62), "huge value");
    kani::cover!(x >= 32 && x < 64, "first logarithmic group");
    assert!(lo <= x && x <= hi, "value inside its bucket");
    let m = lo + (hi - lo) / 2; // == lo.midpoint(hi)
    assert!(m == lo.midpoint(hi));
    if x < 32 {
        assert!(m == x, "exact below 32 (1/1024 absolute after scaling down)");
    } else {
        let d = if m > x { m - x } else { x - m };
        assert!((d as u128) * 32 <= x as u128, "midpoint within 1/32 of the value");
        assert!((hi - lo + 1).is_power_of_two() && (hi - lo + 1) as u128 * 16 <= lo as u128, "bucket width at most lo/16");
    }
}

// @check C11 thorough timeout=3600 mem=30
// @encodes histogram::Histogram::add / Config::value_to_index against the reference bounds; histogram::Histogram::iter (Bucket::range) for low indices
// @bounds every u64 x; adjacent value x+1
// @oracle x and the upper end of its reference bucket land in the same real bucket, and hi+1 lands in the next one (so the real layout equals the reference layout the error lemma was proved for)
#[kani::proof]
#[kani::unwind(3)]
pub fn real_layout_matches_reference_bounds() {
    let cfg = Config::new(4, 64).unwrap();
    let x: u64 = kani::any();
    let (lo, hi) = ref_bounds(x);
    let mut h = Histogram::with_config(&cfg);
    h.add(lo, 1).unwrap();
    h.add(hi, 1).unwrap();
    h.add(x, 1).unwrap();
    let s = h.as_slice();
    let i: usize = kani::any();
    kani::assume(i < 976);
    kani::cover!(s[i] == 3 && hi > lo, "a wide bucket");
    assert!(s[i] == 0 || s[i] == 3, "lower end, upper end and the value itself share one bucket");
    if hi < u64::MAX {
        let mut h2 = Histogram::with_config(&cfg);
        h2.add(hi, 1).unwrap();
        h2.add(hi + 1, 1).unwrap();
        let s2 = h2.as_slice();
        let j: usize = kani::any();
        kani::assume(j < 976);
        assert!(s2[j] <= 1, "the value just above the upper end belongs to a different bucket");
        core::mem::forget(h2);
    }
    core::mem::forget(h);
}

fn short_f64_nonneg() -> f64 {
    let b: u64 = kani::any();
    kani::assume(b & ((1u64 << 44) - 1) == 0 && (b >> 63) == 0);
    f64::from_bits(b)
}

// @check C11 quick timeout=1800 mem=14
// @encodes metrique_aggregation::histogram::{ExponentialAggregationStrategy::new, <_ as AggregationStrategy>::record_many, scale_up}, histogram::Histogram::add
// @bounds values v in [0, 2^43) with 8 free mantissa bits (all exponents in range, incl. values under 1/32), any count > 0
// @oracle after record_many(v, c): exactly one bucket holds c and every other bucket is 0 (count conserved), and it is the bucket a reference histogram assigns to floor(v * 1024); floor(v*1024)/1024 is within 1/1024 below v (no clamping below 2^43)
// @outside drain() itself (976-bucket filter/collect does not finish under CBMC); v with more than 8 significant mantissa bits; negative / NaN / infinite inputs
#[kani::proof]
#[kani::unwind(3)]
pub fn record_many_scales_by_1024_into_one_bucket() {
    use metrique_aggregation::histogram::{AggregationStrategy, ExponentialAggregationStrategy, verif_hooks};
    let v = short_f64_nonneg();
    kani::assume(v < 8796093022208.0); // 2^43
    let c: u64 = kani::any();
    kani::assume(c > 0);
    let mut strat = ExponentialAggregationStrategy::new();
    strat.record_many(v, c);
    let s = verif_hooks::exponential_buckets(&strat);
    // reference: the harness' own scaling + a fresh histogram with the documented configuration
    let scaled = (v * 1024.0) as u64;
    let back = scaled as f64 / 1024.0;
    assert!(back <= v && v - back < 1.0 / 1024.0 && scaled < (1u64 << 53), "reference scaling is floor(v*1024) without clamping");
    let mut r = Histogram::with_config(&Config::new(4, 64).unwrap());
    r.add(scaled, c).unwrap();
    let rs = r.as_slice();
    kani::cover!(v > 0.0 && v < 0.03125, "value under 1/32");
    kani::cover!(v > 1.0e12, "large value");
    assert!(s.len() == 976);
    let i: usize = kani::any();
    kani::assume(i < 976);
    assert!(s[i] == rs[i], "the observation is counted in exactly the bucket of floor(v * 1024), with its full count");
    core::mem::forget(strat);
    core::mem::forget(r);
}
