//! C11 (partial) — exponential histograms conserve counts and stay within their stated error.
//!
//! Real code executed: `metrique_aggregation::histogram::{ExponentialAggregationStrategy, AtomicExponentialAggregationStrategy}
//! ::{new, record_many}` (scale by 2^10, clamp to u64, bucket with grouping power 4 / max power 64) through the public
//! `AggregationStrategy` traits, and the bucket layout of the `histogram` crate as used (Config::new(4, 64)).
//! `drain()` (976-bucket filter/collect) does not finish under CBMC; the midpoint arithmetic it performs is checked
//! as integer lemmas over the same bucket bounds instead. Sort-and-merge is outside (3 symbolic floats: OOM).
use histogram::{Config, Histogram};

/// reference bucket bounds for grouping power 4, written from the histogram crate's documentation
/// (linear below 2^5 = 32, then 16 sub-buckets per power of two)
fn ref_bounds(x: u64) -> (u64, u64) {
    if x < 32 {
        (x, x)
    } else {
        let p = 63 - x.leading_zeros() as u64; // floor(log2 x) >= 5
        let w = 1u64 << (p - 4); // bucket width
        let lo = x & !(w - 1);
        (lo, lo + (w - 1))
    }
}

// @check C11 quick timeout=900 mem=14
// @encodes histogram::Histogram::{with_config, add, as_slice} with Config::new(4, 64) (the layout metrique uses); bucket placement of every u64
// @bounds every u64 value, every count; two values x <= y
// @oracle exactly one bucket receives the count (symbolic index: every other bucket stays 0) => counts are conserved; bucket index is monotone in the value; 976 buckets
// @outside the library's own drain() iteration
#[kani::proof]
#[kani::unwind(3)]
pub fn one_bucket_per_value_and_monotone() {
    let cfg = Config::new(4, 64).unwrap();
    assert!(cfg.total_buckets() == 976);
    let mut h = Histogram::with_config(&cfg);
    let x: u64 = kani::any();
    let c: u64 = kani::any();
    kani::assume(c > 0);
    h.add(x, c).unwrap();
    let s = h.as_slice();
    assert!(s.len() == 976);
    let i: usize = kani::any();
    let j: usize = kani::any();
    kani::assume(i < 976 && j < 976 && i != j);
    kani::cover!(s[i] == c && i > 900, "value in one of the top buckets");
    assert!(!(s[i] != 0 && s[j] != 0), "at most one bucket is touched");
    assert!(s[i] == 0 || s[i] == c, "the touched bucket holds exactly the count");
    // monotone placement: a larger value never lands in a lower bucket
    let y: u64 = kani::any();
    kani::assume(y >= x);
    let mut h2 = Histogram::with_config(&cfg);
    h2.add(y, 1).unwrap();
    let s2 = h2.as_slice();
    let a: usize = kani::any();
    let b: usize = kani::any();
    kani::assume(a < 976 && b < 976);
    if s[a] != 0 && s2[b] != 0 {
        assert!(a <= b, "bucket index is monotone in the value");
    }
    core::mem::forget(h);
    core::mem::forget(h2);
}

// @check C11 quick timeout=900 mem=14
// @encodes reference bucket bounds (grouping power 4) + the midpoint / scale-down arithmetic of drain() as integer lemmas
// @bounds every u64 scaled value x (= value * 1024)
// @oracle lo <= x <= hi; width = hi-lo+1 is 1 below 32 and lo/16 rounded down to a power of two above; midpoint m = lo + (hi-lo)/2 satisfies |m - x| * 32 <= x for x >= 32 (relative error <= 1/32 = 3.125% <= 6.25%) and m == x below 32, i.e. values under 32/1024 = 1/32 are exact to 1/1024
#[kani::proof]
pub fn midpoint_within_relative_error() {
    let x: u64 = kani::any();
    let (lo, hi) = ref_bounds(x);
    kani::cover!(x > (1u64 << 62), "huge value");
    kani::cover!(x >= 32 && x < 64, "first logarithmic group");
    assert!(lo <= x && x <= hi, "value inside its bucket");
    let m = lo + (hi - lo) / 2; // == lo.midpoint(hi)
    assert!(m == lo.midpoint(hi));
    if x < 32 {
        assert!(m == x, "exact below 32 (1/1024 absolute after scaling down)");
    } else {
        let d = if m > x { m - x } else { x - m };
        assert!((d as u128) * 32 <= x as u128, "midpoint within 1/32 of the value");
        assert!((hi - lo + 1).is_power_of_two() && (hi - lo + 1) as u128 * 16 <= lo as u128, "bucket width at most lo/16");
    }
}

// @check C11 thorough timeout=3600 mem=20
// @encodes histogram::Histogram::add / Config::value_to_index against the reference bounds; histogram::Histogram::iter (Bucket::range) for low indices
// @bounds every u64 x; adjacent value x+1
// @oracle x and the upper end of its reference bucket land in the same real bucket, and hi+1 lands in the next one (so the real layout equals the reference layout the error lemma was proved for)
#[kani::proof]
#[kani::unwind(3)]
pub fn real_layout_matches_reference_bounds() {
    let cfg = Config::new(4, 64).unwrap();
    let x: u64 = kani::any();
    let (lo, hi) = ref_bounds(x);
    let mut h = Histogram::with_config(&cfg);
    h.add(lo, 1).unwrap();
    h.add(hi, 1).unwrap();
    h.add(x, 1).unwrap();
    let s = h.as_slice();
    let i: usize = kani::any();
    kani::assume(i < 976);
    kani::cover!(s[i] == 3 && hi > lo, "a wide bucket");
    assert!(s[i] == 0 || s[i] == 3, "lower end, upper end and the value itself share one bucket");
    if hi < u64::MAX {
        let mut h2 = Histogram::with_config(&cfg);
        h2.add(hi, 1).unwrap();
        h2.add(hi + 1, 1).unwrap();
        let s2 = h2.as_slice();
        let j: usize = kani::any();
        kani::assume(j < 976);
        assert!(s2[j] <= 1, "the value just above the upper end belongs to a different bucket");
        core::mem::forget(h2);
    }
    core::mem::forget(h);
}

fn short_f64_nonneg() -> f64 {
    let b: u64 = kani::any();
    kani::assume(b & ((1u64 << 44) - 1) == 0 && (b >> 63) == 0);
    f64::from_bits(b)
}

// @check C11 quick timeout=1800 mem=14
// @encodes metrique_aggregation::histogram::{ExponentialAggregationStrategy::new, <_ as AggregationStrategy>::record_many, scale_up}, histogram::Histogram::add
// @bounds values v in [0, 2^43) with 8 free mantissa bits (all exponents in range, incl. values under 1/32), any count > 0
// @oracle after record_many(v, c): exactly one bucket holds c and every other bucket is 0 (count conserved), and it is the bucket a reference histogram assigns to floor(v * 1024); floor(v*1024)/1024 is within 1/1024 below v (no clamping below 2^43)
// @outside drain() itself (976-bucket filter/collect does not finish under CBMC); v with more than 8 significant mantissa bits; negative / NaN / infinite inputs
#[kani::proof]
#[kani::unwind(3)]
pub fn record_many_scales_by_1024_into_one_bucket() {
    use metrique_aggregation::histogram::{AggregationStrategy, ExponentialAggregationStrategy, verif_hooks};
    let v = short_f64_nonneg();
    kani::assume(v < 8796093022208.0); // 2^43
    let c: u64 = kani::any();
    kani::assume(c > 0);
    let mut strat = ExponentialAggregationStrategy::new();
    strat.record_many(v, c);
    let s = verif_hooks::exponential_buckets(&strat);
    // reference: the harness' own scaling + a fresh histogram with the documented configuration
    let scaled = (v * 1024.0) as u64;
    let back = scaled as f64 / 1024.0;
    assert!(back <= v && v - back < 1.0 / 1024.0 && scaled < (1u64 << 53), "reference scaling is floor(v*1024) without clamping");
    let mut r = Histogram::with_config(&Config::new(4, 64).unwrap());
    r.add(scaled, c).unwrap();
    let rs = r.as_slice();
    kani::cover!(v > 0.0 && v < 0.03125, "value under 1/32");
    kani::cover!(v > 1.0e12, "large value");
    assert!(s.len() == 976);
    let i: usize = kani::any();
    kani::assume(i < 976);
    assert!(s[i] == rs[i], "the observation is counted in exactly the bucket of floor(v * 1024), with its full count");
    core::mem::forget(strat);
    core::mem::forget(r);
}

// ---- observation capture: what Histogram / SharedHistogram hand to their strategy ---------------------------
pub mod capture_support {
    use metrique_aggregation::histogram::{AggregationStrategy, Histogram, SharedAggregationStrategy, SharedHistogram};
    use metrique_writer_core::{MetricFlags, MetricValue, Observation, Unit, Value, ValueWriter};

    /// a source that writes one solver-chosen observation
    pub struct Src(pub Observation);
    impl Value for Src {
        fn write(&self, w: impl ValueWriter) {
            w.metric([self.0], Unit::None, [], MetricFlags::empty())
        }
    }
    impl MetricValue for Src {
        type Unit = metrique_writer_core::unit::None;
    }

    /// recording strategies: remember the calls they receive in statics (the traits' default `record` forwards to
    /// `record_many(v, 1)`), one log for the non-atomic wrapper's strategy and one for the atomic wrapper's
    #[derive(Clone, Copy)]
    pub struct Log {
        pub calls: u8,
        pub value_bits: u64,
        pub count: u64,
    }
    pub static mut PLAIN: Log = Log { calls: 0, value_bits: 0, count: 0 };
    pub static mut SHARED: Log = Log { calls: 0, value_bits: 0, count: 0 };
    pub fn canon(v: f64) -> u64 {
        if v.is_nan() { 0x7ff8_0000_0000_0000 } else { v.to_bits() }
    }
    #[derive(Default)]
    pub struct Rec;
    impl AggregationStrategy for Rec {
        fn record_many(&mut self, value: f64, count: u64) {
            unsafe {
                PLAIN = Log { calls: PLAIN.calls + 1, value_bits: canon(value), count };
            }
        }
        fn drain(&mut self) -> Vec<Observation> {
            Vec::new()
        }
    }
    #[derive(Default)]
    pub struct SharedRec;
    impl SharedAggregationStrategy for SharedRec {
        fn record_many(&self, value: f64, count: u64) {
            unsafe {
                SHARED = Log { calls: SHARED.calls + 1, value_bits: canon(value), count };
            }
        }
        fn drain(&self) -> Vec<Observation> {
            Vec::new()
        }
    }
}

fn check_capture(kind: u8) -> (u64, f64, f64, u64) {
    use capture_support::*;
    use metrique_aggregation::histogram::{Histogram as Plain, SharedHistogram};
    use metrique_writer_core::Observation;
    let u: u64 = kani::any();
    let fb: u64 = kani::any();
    // Repeated: the mean is a division of two symbolic floats in the code and in the oracle: 4 significant bits each
    let tm: u64 = kani::any();
    let te: u64 = kani::any();
    let om: u64 = kani::any();
    let os: u32 = kani::any();
    kani::assume(tm < 16 && te < 2047 && om < 16 && os <= 60);
    let total = f64::from_bits((te << 52) | (tm << 48));
    let occ = om << os;
    let obs = match kind {
        0 => Observation::Unsigned(u),
        1 => Observation::Floating(f64::from_bits(fb)),
        _ => Observation::Repeated { total, occurrences: occ },
    };
    let mut plain: Plain<Src, Rec> = Plain::new(Rec::default());
    plain.add_value(Src(obs));
    let shared: SharedHistogram<Src, SharedRec> = SharedHistogram::new(SharedRec::default());
    shared.add_value(Src(obs));
    let (p, s) = unsafe { (PLAIN, SHARED) };
    let (calls, bits, count) = match kind {
        0 => (1, canon(u as f64), 1),
        1 => (1, canon(f64::from_bits(fb)), 1),
        _ if occ == 0 => (0, 0, 0),
        _ => (1, canon(total / occ as f64), occ),
    };
    assert!(p.calls == calls && s.calls == calls, "one strategy call per usable observation, none for zero occurrences");
    if calls == 1 {
        assert!(p.count == count && s.count == count, "the occurrence count is handed on unchanged (counts are conserved)");
        assert!(p.value_bits == bits, "Histogram records the value itself / the mean total/occurrences");
        assert!(s.value_bits == bits, "SharedHistogram records exactly what Histogram records");
    }
    (u, f64::from_bits(fb), total, occ)
}

// @check C11 quick timeout=900 mem=14
// @encodes metrique_aggregation::histogram::Histogram::add_value, SharedHistogram::add_value (their Capturer::metric), AggregationStrategy::record / SharedAggregationStrategy::record (default methods)
// @bounds one observation: Unsigned(any u64) / Floating(any f64 incl. NaN, inf) / Repeated{total: any sign-less exponent x 4 mantissa bits, occurrences: m<<s with m<16, s<=60, incl. 0}; recording strategies supplied by the harness
// @oracle both wrappers hand the strategy exactly one (value, count): (u as f64, 1), (f, 1), (total/occurrences, occurrences) bit-for-bit, nothing for zero occurrences; atomic and non-atomic wrappers agree
// @outside more than one observation per value; totals / occurrence counts with more than 4 significant bits (symbolic float division)
#[kani::proof]
pub fn capture_unsigned_source() {
    let (u, _, _, _) = check_capture(0);
    kani::cover!(u > (1u64 << 60), "an integer beyond f64's exact range");
}
// @check C11 quick timeout=900 mem=14
// @encodes metrique_aggregation::histogram::Histogram::add_value, SharedHistogram::add_value
// @bounds see capture_unsigned_source
// @oracle see capture_unsigned_source
#[kani::proof]
pub fn capture_floating_source() {
    let (_, f, _, _) = check_capture(1);
    kani::cover!(f.is_nan(), "NaN source");
    kani::cover!(f > 1.0e300, "huge float source");
}
// @check C11 quick timeout=1800 mem=14
// @encodes metrique_aggregation::histogram::Histogram::add_value, SharedHistogram::add_value
// @bounds see capture_unsigned_source
// @oracle see capture_unsigned_source
#[kani::proof]
pub fn capture_repeated_source() {
    let (_, _, total, occ) = check_capture(2);
    kani::cover!(occ > 1 && total > 1.0 && total < 1.0e9, "a pre-aggregated observation with several occurrences");
    kani::cover!(occ == 0, "zero occurrences");
}
