#![allow(dead_code, unused_imports, unexpected_cfgs, static_mut_refs)]
#[cfg(kani)]
pub mod c11;

// written by /verif/check into a scratch copy of this crate when a counterexample is replayed natively
#[cfg(all(kani, verif_playback))]
mod playback_gen;
