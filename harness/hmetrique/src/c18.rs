//! C18 — timers and stopwatches report exactly the spans they were asked to measure.
//!
//! Real code through the public API with a manually advanced `metrique_timesource::Time`.
use metrique::timers::{Stopwatch, Timer};
use metrique_core::CloseValue;
use metrique_timesource::{Time, TimeSource};
use std::sync::atomic::{AtomicU64, Ordering};
use std::time::{Duration, Instant, SystemTime};

/// manually advanced clock; `Instant`s are built from a zeroed `Instant` (Kani has no clock).
/// Time is kept in half-second ticks: whole seconds plus an optional 500 ms, so that the nanosecond carry/borrow
/// paths of `Duration`/`Instant` arithmetic are exercised without putting 64-bit divisions by 10^9 on symbolic
/// values into the formula (arbitrary nanosecond advances made one 3-episode harness exceed 30 minutes).
#[derive(Debug)]
struct Manual;
static NOW_TICKS: AtomicU64 = AtomicU64::new(0);
fn ticks_to_duration(t: u64) -> Duration {
    Duration::new(t >> 1, if t & 1 == 1 { 500_000_000 } else { 0 })
}
impl Time for Manual {
    fn now(&self) -> SystemTime {
        SystemTime::UNIX_EPOCH + ticks_to_duration(NOW_TICKS.load(Ordering::Relaxed))
    }
    fn instant(&self) -> Instant {
        let base: Instant = unsafe { core::mem::zeroed() };
        base + ticks_to_duration(NOW_TICKS.load(Ordering::Relaxed))
    }
}
/// advance by an arbitrary number of half seconds (0 ..= 65535)
fn advance() -> u64 {
    let d: u16 = kani::any();
    NOW_TICKS.store(NOW_TICKS.load(Ordering::Relaxed) + d as u64, Ordering::Relaxed);
    d as u64
}
fn now_ns() -> u64 {
    NOW_TICKS.load(Ordering::Relaxed)
}
/// a reported duration in ticks (and it must be a whole number of ticks)
fn ticks_of(d: Duration) -> u64 {
    assert!(d.subsec_nanos() == 0 || d.subsec_nanos() == 500_000_000, "reported duration is a sum/difference of clock readings");
    d.as_secs() * 2 + (d.subsec_nanos() != 0) as u64
}

/// reference model: total of completed, kept spans since the last clear/overwrite; None if there is none
struct Model {
    total: Option<u64>,
}
impl Model {
    fn add(&mut self, span: u64) {
        self.total = Some(self.total.unwrap_or(0) + span);
    }
}

fn closed(sw: &Stopwatch) -> Option<u64> {
    sw.close().map(ticks_of)
}

/// one borrowed-guard episode with a symbolic ending
fn borrowed_episode(sw: &mut Stopwatch, m: &mut Model) {
    let t0 = now_ns();
    let g = sw.start();
    advance();
    let span = now_ns() - t0;
    let how: u8 = kani::any();
    kani::assume(how < 4);
    match how {
        0 => drop(g),
        1 => {
            let d = g.stop();
            assert!(ticks_of(d) == span, "stop returns the span");
        }
        2 => g.discard(),
        _ => g.overwrite(),
    }
    match how {
        0 | 1 => m.add(span),
        2 => {}
        _ => m.total = Some(span),
    }
}

// @check C18 quick timeout=1800 mem=14
// @encodes metrique::timers::{Stopwatch::new_from_timesource, start, clear, TimerGuard::{stop, discard, overwrite, drop}, <&Stopwatch as CloseValue>::close}, metrique_timesource::{TimeSource::custom, Instant::elapsed}
// @bounds 2 borrowed-guard episodes, each ending symbolically in drop / stop / discard / overwrite, a symbolic clear in between; every clock advance an arbitrary number (0..=65535) of half seconds, so whole seconds and 500 ms carries/borrows occur; closed value checked after every episode
// @oracle reported duration == reference model (sum of kept spans since last clear/overwrite), None when there is none
// @outside time_source() resolution order (thread-local with destructor: Kani cannot compile it); advances that are not multiples of 500 ms
#[kani::proof]
#[kani::unwind(3)]
pub fn stopwatch_borrowed_guards() {
    let mut sw = Stopwatch::new_from_timesource(TimeSource::custom(Manual));
    let mut m = Model { total: None };
    assert!(closed(&sw).is_none(), "absent if no span was measured");
    borrowed_episode(&mut sw, &mut m);
    assert!(closed(&sw) == m.total);
    if kani::any() {
        sw.clear();
        m.total = None;
        assert!(closed(&sw).is_none(), "clear forgets everything");
    }
    advance();
    borrowed_episode(&mut sw, &mut m);
    kani::cover!(m.total.is_none(), "nothing kept");
    kani::cover!(m.total.is_some() && m.total.unwrap() > 100_000 && m.total.unwrap() % 2 == 1, "long total with a half second");
    assert!(closed(&sw) == m.total, "stopwatch reports the total of kept spans");
}

// @check C18 thorough timeout=3600 mem=20
// @encodes metrique::timers::{Stopwatch::start_owned, OwnedTimerGuard::{stop, discard, overwrite, drop}, MaybeGuardedDuration::{shared_cloned, take}, SharedDuration}, Stopwatch::start after owned guards, clear
// @bounds two concurrently live owned guards started at different symbolic times, ended in a symbolic order with symbolic endings (drop/stop/discard/overwrite), then one borrowed episode; symbolic clear while an owned guard is live
// @oracle reported duration == reference model: spans add in completion order, overwrite replaces what was accumulated so far, discard contributes nothing, clear forgets what was accumulated before it
#[kani::proof]
#[kani::unwind(3)]
pub fn stopwatch_owned_guards_overlap() {
    let mut sw = Stopwatch::new_from_timesource(TimeSource::custom(Manual));
    let mut m = Model { total: None };
    let ta = now_ns();
    let a = sw.start_owned();
    advance();
    let tb = now_ns();
    let b = sw.start_owned();
    advance();
    let clear_mid: bool = kani::any();
    if clear_mid {
        sw.clear();
        m.total = None;
    }
    let a_first: bool = kani::any();
    let (how_a, how_b): (u8, u8) = (kani::any(), kani::any());
    kani::assume(how_a < 4 && how_b < 4);
    let mut a = Some(a);
    let mut b = Some(b);
    let mut finish = |is_a: bool, m: &mut Model| {
        let (g, t0, how) = if is_a { (a.take().unwrap(), ta, how_a) } else { (b.take().unwrap(), tb, how_b) };
        let span = now_ns() - t0;
        match how {
            0 => drop(g),
            1 => {
                let d = g.stop();
                assert!(ticks_of(d) == span);
            }
            2 => g.discard(),
            _ => g.overwrite(),
        }
        match how {
            0 | 1 => m.add(span),
            2 => {}
            _ => m.total = Some(span),
        }
    };
    finish(a_first, &mut m);
    advance();
    finish(!a_first, &mut m);
    kani::cover!(how_a == 3 && !a_first, "overwrite by the guard that finishes last");
    assert!(closed(&sw) == m.total, "overlapping owned guards add up in completion order");
    borrowed_episode(&mut sw, &mut m);
    assert!(closed(&sw) == m.total, "a borrowed guard after owned ones keeps accumulating");
}

// @check C18 quick timeout=1800 mem=20
// @encodes metrique::timers::{Stopwatch::start_owned, clear, OwnedTimerGuard::{stop, discard, overwrite, drop}, MaybeGuardedDuration::{shared_cloned, take}, SharedDuration, <&Stopwatch as CloseValue>::close}
// @bounds one owned guard; a solver-chosen clear while it is live; clock advances before and after; the guard ends by drop / stop / discard / overwrite (solver-chosen)
// @oracle an owned guard that is live across a clear still reports into the stopwatch: closed value == its full span for drop/stop/overwrite, None for discard; before the guard ends the stopwatch reports None (cleared) or nothing yet
#[kani::proof]
#[kani::unwind(3)]
pub fn stopwatch_owned_guard_across_clear() {
    let mut sw = Stopwatch::new_from_timesource(TimeSource::custom(Manual));
    let t0 = now_ns();
    let g = sw.start_owned();
    advance();
    let cleared: bool = kani::any();
    if cleared {
        sw.clear();
    }
    assert!(closed(&sw).is_none(), "nothing completed yet");
    advance();
    let span = now_ns() - t0;
    let how: u8 = kani::any();
    kani::assume(how < 4);
    kani::cover!(cleared && how == 0, "guard dropped after a clear");
    kani::cover!(!cleared && how == 3, "overwrite without a clear");
    match how {
        0 => drop(g),
        1 => {
            let d = g.stop();
            assert!(ticks_of(d) == span);
        }
        2 => g.discard(),
        _ => g.overwrite(),
    }
    let want = if how == 2 { None } else { Some(span) };
    assert!(closed(&sw) == want, "the span of a guard that outlives a clear is still reported");
}

// @check C18 quick timeout=900 mem=14
// @encodes metrique::timers::{Timer::start_now_with_timesource, stop, <&Timer as CloseValue>::close}
// @bounds create, advance, optional first stop, advance, optional second stop, advance, close; advances arbitrary multiples of 500 ms
// @oracle reports creation -> first stop, or creation -> close if never stopped; repeated stops return the same value and change nothing
#[kani::proof]
#[kani::unwind(3)]
pub fn timer_first_stop_wins() {
    let t0 = now_ns();
    let mut t = Timer::start_now_with_timesource(TimeSource::custom(Manual));
    advance();
    let stop1: bool = kani::any();
    let mut expected: Option<u64> = None;
    if stop1 {
        let d = t.stop();
        expected = Some(now_ns() - t0);
        assert!(ticks_of(d) == expected.unwrap());
    }
    advance();
    let stop2: bool = kani::any();
    if stop2 {
        let d = t.stop();
        if expected.is_none() {
            expected = Some(now_ns() - t0);
        }
        assert!(ticks_of(d) == expected.unwrap(), "repeated stops change nothing");
    }
    advance();
    kani::cover!(stop1 && stop2, "stopped twice");
    kani::cover!(!stop1 && !stop2, "never stopped");
    let closed = ticks_of((&t).close());
    assert!(closed == expected.unwrap_or(now_ns() - t0), "first stop, else time of close");
}
