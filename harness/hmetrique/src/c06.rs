//! C06 — an append-on-drop entry is closed and appended exactly once, at the right moment (sequential orders).
//!
//! Real code executed through the PUBLIC API: `metrique::append_and_close`, `AppendAndCloseOnDrop::{flush_guard,
//! force_flush_guard, handle, deref_mut}`, `AppendAndCloseOnDropHandle::clone`, `keep_alive::{Parent, Guard, DropAll}`,
//! `Drop for AppendAndCloseOnDropInner`, `RootEntry::write`.
use crate::rec::*;
use metrique::slot::{FlushGuard, ForceFlushGuard};
use metrique::verif_keep_alive::P;
use metrique::{AppendAndCloseOnDrop, Slot, append_and_close};

/// What `AppendAndCloseOnDrop` keeps inside its `Parent`: dropping it closes the entry and appends it.
/// (`AppendAndCloseOnDropInner` itself, driven through `append_and_close`, is exercised with fixed drop orders
/// in `real_append_and_close_*`; with symbolic orders its drop glue does not finish in CBMC.)
pub struct Inner {
    pub v: u64,
    pub slot: Option<Slot<Child>>,
}
impl Drop for Inner {
    fn drop(&mut self) {
        use metrique_core::CloseValue;
        let slot = self.slot.take().and_then(|s| s.close());
        unsafe {
            CLOSES += 1;
            APPENDS += 1;
            LAST_V = self.v;
            LAST_SLOT = slot;
        }
    }
}
type Owner = P<Inner>;

struct World {
    owner: Option<Owner>,
    g1: Option<FlushGuard>,
    g2: Option<FlushGuard>,
    f1: Option<ForceFlushGuard>,
    f2: Option<ForceFlushGuard>,
    guards_created: u8,
    guards_dropped: u8,
    force_dropped: bool,
    last_v: u64,
}

impl World {
    fn expected_appended(&self) -> bool {
        self.owner.is_none() && (self.guards_dropped == self.guards_created || self.force_dropped)
    }
    fn check(&self) {
        let (closes, appends, last_v) = unsafe { (CLOSES, APPENDS, LAST_V) };
        if self.expected_appended() {
            assert!(appends == 1 && closes == 1, "appended (and closed) exactly once, as soon as owner and guards allow it");
            assert!(last_v == self.last_v, "the appended entry reflects the last mutation made through the owner");
        } else {
            assert!(appends == 0 && closes == 0, "never appended or closed earlier than allowed");
        }
    }
    /// one symbolic step: drop one of the live things, or create a guard from the owner, or mutate through the owner
    fn step(&mut self) {
        let op: u8 = kani::any();
        kani::assume(op < 8);
        match op {
            0 => {
                self.owner = None;
            }
            1 => {
                if self.g1.take().is_some() {
                    self.guards_dropped += 1;
                }
            }
            2 => {
                if self.g2.take().is_some() {
                    self.guards_dropped += 1;
                }
            }
            3 => {
                if self.f1.take().is_some() {
                    self.force_dropped = true;
                }
            }
            4 => {
                // guards may be created late, also after a force-flush guard was dropped
                if let Some(o) = self.owner.as_ref() {
                    if self.g2.is_none() && self.guards_created < 2 {
                        self.g2 = Some(o.flush_guard());
                        self.guards_created += 1;
                    }
                }
            }
            5 => {
                // several force-flush guards may exist at once: dropping ANY of them releases the entry
                if let Some(o) = self.owner.as_ref() {
                    if self.f2.is_none() {
                        self.f2 = Some(o.force_flush_guard());
                    }
                }
            }
            7 => {
                if self.f2.take().is_some() {
                    self.force_dropped = true;
                }
            }
            _ => {
                if let Some(o) = self.owner.as_mut() {
                    let v: u64 = kani::any();
                    o.get_mut().v = v;
                    self.last_v = v;
                }
            }
        }
        self.check();
    }
}

fn world(with_g1: bool, with_f1: bool) -> World {
    reset();
    let owner: Owner = P::new(Inner { v: 7, slot: None });
    let g1 = if with_g1 { Some(owner.flush_guard()) } else { None };
    let f1 = if with_f1 { Some(owner.force_flush_guard()) } else { None };
    World {
        owner: Some(owner),
        g1,
        g2: None,
        f1,
        f2: None,
        guards_created: with_g1 as u8,
        guards_dropped: 0,
        force_dropped: false,
        last_v: 7,
    }
}

// @check C06 quick timeout=1800 mem=14
// @encodes keep_alive::{Parent::new, new_guard, force_drop_guard, deref_mut, Guard (drop), DropAll::drop} - the reference protocol AppendAndCloseOnDrop delegates to (flush_guard / force_flush_guard are built exactly as AppendAndCloseOnDrop builds them, through verif_hooks)
// @bounds owner + one flush guard + one force-flush guard alive initially; 3 symbolic steps, each one of: drop owner / drop flush guard 1 / drop flush guard 2 / drop force guard 1 / drop force guard 2 / create a second flush guard / create a second force guard (also after the first was dropped) / mutate through the owner (any u64); checked after every step
// @oracle appends == closes == 1 exactly from the first moment (owner gone AND (all flush guards gone OR some force guard dropped)), 0 before, never 2; appended value == last mutation
// @outside drops racing on several threads (Kani is sequential); the AppendAndCloseOnDrop wrapper and handle clones with symbolic orders (fixed-order harnesses real_append_and_close_*); #[metrics]-generated entries
#[kani::proof]
#[kani::unwind(3)]
pub fn drop_orders_owner_guard_force() {
    let mut w = world(true, true);
    w.step();
    w.step();
    w.step();
    kani::cover!(unsafe { APPENDS } == 1 && w.g1.is_some(), "appended while a flush guard is still alive (force flush)");
    kani::cover!(unsafe { APPENDS } == 0 && w.owner.is_none(), "owner gone but entry still held back by a guard");
    // whatever is still alive is dropped now: afterwards the entry must have been appended exactly once
    let World { owner, g1, g2, f1, f2, last_v, .. } = w;
    drop(g1);
    drop(owner);
    drop(f1);
    drop(f2);
    drop(g2);
    unsafe {
        assert!(APPENDS == 1 && CLOSES == 1, "never not at all, never twice");
        assert!(LAST_V == last_v);
    }
}

// @check C06 thorough timeout=7200 mem=30
// @encodes same as drop_orders_owner_guard_force
// @bounds owner + flush guard + force guard; 5 symbolic steps
// @oracle same
#[kani::proof]
#[kani::unwind(3)]
pub fn drop_orders_5_steps() {
    let mut w = world(true, true);
    w.step();
    w.step();
    w.step();
    w.step();
    w.step();
    let World { owner, g1, g2, f1, f2, last_v, .. } = w;
    drop(f1);
    drop(g2);
    drop(owner);
    drop(f2);
    drop(g1);
    unsafe {
        assert!(APPENDS == 1 && CLOSES == 1, "never not at all, never twice");
        assert!(LAST_V == last_v);
    }
}

// @check C06 quick timeout=1800 mem=20
// @encodes metrique::append_and_close, AppendAndCloseOnDrop::{flush_guard, deref_mut}, Drop for AppendAndCloseOnDropInner (close + append), RootEntry::write, keep_alive::*
// @bounds the REAL public wrapper with a hand-written entry and a recording sink; fixed order: mutate (any u64), take a flush guard, drop the owner, drop the guard
// @oracle nothing appended while the guard lives; exactly one close and one append afterwards, carrying the mutated value
// @outside symbolic orders on the real wrapper (do not finish: > 900 s)
#[kani::proof]
#[kani::unwind(3)]
pub fn real_append_and_close_guard_delays() {
    reset();
    let mut owner: AppendAndCloseOnDrop<Work, RecSink> = append_and_close(Work { v: 0, slot: Slot::new(Child(0)) }, RecSink);
    let v: u64 = kani::any();
    owner.v = v;
    let g = owner.flush_guard();
    drop(owner);
    unsafe { assert!(APPENDS == 0 && CLOSES == 0, "held back by the flush guard") };
    drop(g);
    kani::cover!(v == 77, "a particular value");
    unsafe {
        assert!(APPENDS == 1 && CLOSES == 1, "closed and appended exactly once");
        assert!(LAST_V == v, "reflects the mutation made through the owner");
    }
}

// @check C06 quick timeout=1800 mem=20
// @encodes metrique::append_and_close, AppendAndCloseOnDrop::{flush_guard, force_flush_guard}, Drop for AppendAndCloseOnDropInner, keep_alive::DropAll
// @bounds the REAL public wrapper; fixed order: flush guard + force-flush guard taken, owner dropped, force guard dropped, flush guard dropped
// @oracle appended exactly when the force-flush guard is dropped (owner already gone), never again when the flush guard follows
#[kani::proof]
#[kani::unwind(3)]
pub fn real_append_and_close_force_flush() {
    reset();
    let owner: AppendAndCloseOnDrop<Work, RecSink> = append_and_close(Work { v: 3, slot: Slot::new(Child(0)) }, RecSink);
    let g = owner.flush_guard();
    let f = owner.force_flush_guard();
    drop(owner);
    unsafe { assert!(APPENDS == 0, "held back by the flush guard") };
    drop(f);
    kani::cover!(true, "reached");
    unsafe { assert!(APPENDS == 1 && CLOSES == 1 && LAST_V == 3, "force flush releases the entry at once") };
    drop(g);
    unsafe { assert!(APPENDS == 1 && CLOSES == 1, "never twice") };
}
