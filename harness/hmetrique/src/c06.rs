//! C06 — an append-on-drop entry is closed and appended exactly once, at the right moment (sequential orders).
//!
//! Real code executed through the PUBLIC API: `metrique::append_and_close`, `AppendAndCloseOnDrop::{flush_guard,
//! force_flush_guard, handle, deref_mut}`, `AppendAndCloseOnDropHandle::clone`, `keep_alive::{Parent, Guard, DropAll}`,
//! `Drop for AppendAndCloseOnDropInner`, `RootEntry::write`.
use crate::rec::*;
use metrique::slot::{FlushGuard, ForceFlushGuard};
use metrique::verif_keep_alive::P;
use metrique::{AppendAndCloseOnDrop, Slot, append_and_close};

/// What `AppendAndCloseOnDrop` keeps inside its `Parent`: dropping it closes the entry and appends it.
/// (`AppendAndCloseOnDropInner` itself, driven through `append_and_close`, is exercised with fixed drop orders
/// in `real_append_and_close_*`; with symbolic orders its drop glue does not finish in CBMC.)
pub struct Inner {
    pub v: u64,
}
impl Drop for Inner {
    fn drop(&mut self) {
        unsafe {
            CLOSES += 1;
            APPENDS += 1;
            LAST_V = self.v;
        }
    }
}
type Owner = P<Inner>;

fn appended() -> (u32, u32, u64) {
    unsafe { (CLOSES, APPENDS, LAST_V) }
}

/// after every step: appended exactly once iff the rule allows it, never earlier, never twice
fn check(owner_gone: bool, guards_alive: u8, force_dropped: bool, last_v: u64) {
    let (closes, appends, v) = appended();
    if owner_gone && (guards_alive == 0 || force_dropped) {
        assert!(appends == 1 && closes == 1, "appended (and closed) exactly once, as soon as owner and guards allow it");
        assert!(v == last_v, "the appended entry reflects the last mutation made through the owner");
    } else {
        assert!(appends == 0 && closes == 0, "never appended or closed earlier than allowed");
    }
}

// @check C06 quick timeout=2400 mem=24
// @encodes keep_alive::{Parent::new, new_guard, force_drop_guard, deref_mut, Guard (drop), DropAll::drop} - the reference protocol AppendAndCloseOnDrop delegates to (flush_guard / force_flush_guard are built exactly as AppendAndCloseOnDrop builds them, through verif_hooks)
// @bounds owner + one flush guard + one force-flush guard, value mutated through the owner (any u64); the three are dropped in a solver-chosen order (3 steps, each dropping any of the three that is still alive); checked after every step
// @oracle appends == closes == 1 exactly from the first moment (owner gone AND (flush guard gone OR force guard dropped)), 0 before, never 2; appended value == last mutation
// @outside drops racing on several threads (Kani is sequential); the AppendAndCloseOnDrop wrapper with symbolic orders (fixed-order harnesses real_append_and_close_*)
#[kani::proof]
#[kani::unwind(3)]
pub fn drop_orders_owner_guard_force() {
    reset();
    let mut owner_: Owner = P::new(Inner { v: 7 });
    let v: u64 = kani::any();
    owner_.get_mut().v = v;
    let mut g = Some(owner_.flush_guard());
    let mut f = Some(owner_.force_flush_guard());
    let mut owner = Some(owner_);
    let mut force_dropped = false;
    let mut step = |sel: u8| {
        match sel {
            0 => drop(owner.take()),
            1 => drop(g.take()),
            _ => {
                if f.take().is_some() {
                    force_dropped = true;
                }
            }
        }
        check(owner.is_none(), g.is_some() as u8, force_dropped, v);
    };
    let (s1, s2, s3): (u8, u8, u8) = (kani::any(), kani::any(), kani::any());
    kani::assume(s1 < 3 && s2 < 3 && s3 < 3);
    step(s1);
    step(s2);
    step(s3);
    kani::cover!(s1 == 0 && s2 == 2 && s3 == 1, "owner, then force guard, then flush guard");
    kani::cover!(s1 == 1 && s2 == 2 && s3 == 0, "guards first, owner last");
}

// @check C06 quick timeout=2400 mem=24
// @encodes keep_alive::{Parent, Guard, DropAll::drop} with TWO force-flush guards
// @bounds owner + one flush guard + two force-flush guards; the owner is dropped, then a solver-chosen force guard, then the other one, then the flush guard
// @oracle the entry is appended exactly when the FIRST force-flush guard is dropped (some force guard dropped), whichever of the two it is; nothing changes afterwards
#[kani::proof]
#[kani::unwind(3)]
pub fn any_force_guard_releases() {
    reset();
    let owner: Owner = P::new(Inner { v: 9 });
    let g = owner.flush_guard();
    let mut f1 = Some(owner.force_flush_guard());
    let mut f2 = Some(owner.force_flush_guard());
    drop(owner);
    check(true, 1, false, 9);
    let first: bool = kani::any();
    kani::cover!(first, "first-created force guard dropped first");
    kani::cover!(!first, "second-created force guard dropped first");
    if first { drop(f1.take()) } else { drop(f2.take()) }
    check(true, 1, true, 9);
    drop(f1.take());
    drop(f2.take());
    check(true, 1, true, 9);
    drop(g);
    check(true, 0, true, 9);
}

// @check C06 quick timeout=2400 mem=24
// @encodes keep_alive::{Parent::new_guard after DropAll::drop, Guard drop}
// @bounds a force-flush guard is created and dropped while the owner lives; afterwards a flush guard is created (solver decides whether), the owner is dropped, then the late guard
// @oracle once a force-flush guard has been dropped, the entry is appended when the owner goes - a guard created afterwards cannot hold it back - and exactly once
#[kani::proof]
#[kani::unwind(3)]
pub fn guard_created_after_force_flush() {
    reset();
    let mut owner: Owner = P::new(Inner { v: 1 });
    let f = owner.force_flush_guard();
    drop(f);
    check(false, 0, true, 1);
    let late: bool = kani::any();
    let g = if late { Some(owner.flush_guard()) } else { None };
    let v: u64 = kani::any();
    owner.get_mut().v = v;
    kani::cover!(late, "a flush guard created after the force flush");
    drop(owner);
    check(true, late as u8, true, v);
    drop(g);
    check(true, 0, true, v);
}

// @check C06 quick timeout=2400 mem=24
// @encodes metrique::append_and_close, AppendAndCloseOnDrop::{flush_guard, deref_mut}, Drop for AppendAndCloseOnDropInner (close + append), RootEntry::write, keep_alive::*
// @bounds the REAL public wrapper with a hand-written entry and a recording sink; fixed order: mutate (any u64), take a flush guard, drop the owner, drop the guard
// @oracle nothing appended while the guard lives; exactly one close and one append afterwards, carrying the mutated value
// @outside symbolic orders on the real wrapper (do not finish: > 900 s)
#[kani::proof]
#[kani::unwind(3)]
pub fn real_append_and_close_guard_delays() {
    reset();
    let mut owner: AppendAndCloseOnDrop<Plain, RecSink> = append_and_close(Plain { v: 0 }, RecSink);
    let v: u64 = kani::any();
    owner.v = v;
    let g = owner.flush_guard();
    drop(owner);
    unsafe { assert!(APPENDS == 0 && CLOSES == 0, "held back by the flush guard") };
    drop(g);
    kani::cover!(v == 77, "a particular value");
    unsafe {
        assert!(APPENDS == 1 && CLOSES == 1, "closed and appended exactly once");
        assert!(LAST_V == v, "reflects the mutation made through the owner");
    }
}

// @check C06 quick timeout=2400 mem=24
// @encodes metrique::append_and_close, AppendAndCloseOnDrop::{flush_guard, force_flush_guard}, Drop for AppendAndCloseOnDropInner, keep_alive::DropAll
// @bounds the REAL public wrapper; fixed order: flush guard + force-flush guard taken, owner dropped, force guard dropped, flush guard dropped
// @oracle appended exactly when the force-flush guard is dropped (owner already gone), never again when the flush guard follows
#[kani::proof]
#[kani::unwind(3)]
pub fn real_append_and_close_force_flush() {
    reset();
    let owner: AppendAndCloseOnDrop<Plain, RecSink> = append_and_close(Plain { v: 3 }, RecSink);
    let g = owner.flush_guard();
    let f = owner.force_flush_guard();
    drop(owner);
    unsafe { assert!(APPENDS == 0, "held back by the flush guard") };
    drop(f);
    kani::cover!(true, "reached");
    unsafe { assert!(APPENDS == 1 && CLOSES == 1 && LAST_V == 3, "force flush releases the entry at once") };
    drop(g);
    unsafe { assert!(APPENDS == 1 && CLOSES == 1, "never twice") };
}
