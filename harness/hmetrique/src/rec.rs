//! A hand-written unit-of-work entry (what `#[metrics]` would generate, minus the macro) and a recording sink.
use metrique::{RootEntry, Slot};
use metrique_core::{CloseValue, InflectableEntry};
use metrique_writer_core::sink::FlushWait;
use metrique_writer_core::{Entry, EntryConfig, EntrySink, EntryWriter, MetricFlags, Observation, Unit, ValidationError, Value,
    ValueWriter};
use std::borrow::Cow;
use std::time::SystemTime;

pub static mut CLOSES: u32 = 0;
pub static mut APPENDS: u32 = 0;
pub static mut LAST_V: u64 = 0;
pub static mut LAST_SLOT: Option<u64> = None;

pub fn reset() {
    unsafe {
        CLOSES = 0;
        APPENDS = 0;
        LAST_V = 0;
        LAST_SLOT = None;
    }
}

pub struct Child(pub u64);
impl CloseValue for Child {
    type Closed = u64;
    fn close(self) -> u64 {
        self.0
    }
}

pub struct Work {
    pub v: u64,
    pub slot: Slot<Child>,
}
pub struct WorkClosed {
    v: u64,
    slot: Option<u64>,
}
impl CloseValue for Work {
    type Closed = WorkClosed;
    fn close(self) -> WorkClosed {
        unsafe { CLOSES += 1 };
        WorkClosed { v: self.v, slot: self.slot.close() }
    }
}
impl InflectableEntry for WorkClosed {
    fn write<'a>(&'a self, w: &mut impl EntryWriter<'a>) {
        w.value("v", &self.v);
        if let Some(s) = &self.slot {
            w.value("s", s);
        }
    }
}

struct Vw<'l>(&'l mut Option<u64>);
impl ValueWriter for Vw<'_> {
    fn string(self, _value: &str) {}
    fn metric<'a>(
        self,
        distribution: impl IntoIterator<Item = Observation>,
        _unit: Unit,
        _dimensions: impl IntoIterator<Item = (&'a str, &'a str)>,
        _flags: MetricFlags<'_>,
    ) {
        for o in distribution {
            if let Observation::Unsigned(v) = o {
                *self.0 = Some(v);
            }
        }
    }
    fn error(self, _error: ValidationError) {}
}
struct W {
    v: Option<u64>,
    s: Option<u64>,
}
impl<'a> EntryWriter<'a> for W {
    fn timestamp(&mut self, _t: SystemTime) {}
    fn value(&mut self, name: impl Into<Cow<'a, str>>, value: &(impl Value + ?Sized)) {
        let name: Cow<'a, str> = name.into();
        if name.as_bytes()[0] == b'v' {
            value.write(Vw(&mut self.v));
        } else {
            value.write(Vw(&mut self.s));
        }
    }
    fn config(&mut self, _config: &'a dyn EntryConfig) {}
}

/// the sink records how often it was appended to and what the (closed, rooted) entry reported
pub struct RecSink;
impl EntrySink<RootEntry<WorkClosed>> for RecSink {
    fn append(&self, entry: RootEntry<WorkClosed>) {
        let mut w = W { v: None, s: None };
        entry.write(&mut w);
        unsafe {
            APPENDS += 1;
            LAST_V = w.v.unwrap_or(u64::MAX);
            LAST_SLOT = w.s;
        }
    }
    fn flush_async(&self) -> FlushWait {
        FlushWait::ready()
    }
}

/// an entry without a slot: keeps `Slot<T>` (and with it the guard -> boxed closure -> entry drop-glue cycle) out of
/// the type when the real `append_and_close` wrapper is exercised
pub struct Plain {
    pub v: u64,
}
pub struct PlainClosed {
    v: u64,
}
impl CloseValue for Plain {
    type Closed = PlainClosed;
    fn close(self) -> PlainClosed {
        unsafe { CLOSES += 1 };
        PlainClosed { v: self.v }
    }
}
impl InflectableEntry for PlainClosed {
    fn write<'a>(&'a self, w: &mut impl EntryWriter<'a>) {
        w.value("v", &self.v);
    }
}
impl EntrySink<RootEntry<PlainClosed>> for RecSink {
    fn append(&self, entry: RootEntry<PlainClosed>) {
        let mut w = W { v: None, s: None };
        entry.write(&mut w);
        unsafe {
            APPENDS += 1;
            LAST_V = w.v.unwrap_or(u64::MAX);
            LAST_SLOT = None;
        }
    }
    fn flush_async(&self) -> FlushWait {
        FlushWait::ready()
    }
}
