//! C13 — slot values are never lost in wait mode and never partial in discard mode (sequential orders).
//!
//! Real code through the public API: `Slot::{new, open, close}`, `LazySlot::{open, close}`, `SlotGuard::{deref_mut, drop}`,
//! `OnParentDrop`, `AppendAndCloseOnDrop::{flush_guard, force_flush_guard}`, tokio `oneshot`.
use crate::rec::*;
use metrique::slot::{LazySlot, OnParentDrop};
use metrique::verif_keep_alive::P;
use metrique::Slot;
use metrique_core::CloseValue;

/// The owning entry: the keep_alive kernel `AppendAndCloseOnDrop` is built on, holding an entry whose Drop closes
/// it (slot included) and appends it. The slot itself is kept in a static next to the entry rather than inside its
/// type: an entry type that contains `Slot<T>` makes the drop glue recursive through the guard's boxed closure
/// (Slot -> SlotGuard -> FlushGuard -> Guard -> dyn FnOnce -> entry -> Slot ...), and CBMC unwinds that recursion
/// without end (measured: no result in 20 min, 12 GB, with the public wrapper and with the kernel alike).
static mut SLOT: Option<Slot<Child>> = None;
pub struct Holder {
    v: u64,
}
impl Drop for Holder {
    fn drop(&mut self) {
        let slot = unsafe { SLOT.take() }.and_then(|s| s.close());
        unsafe {
            CLOSES += 1;
            APPENDS += 1;
            LAST_V = self.v;
            LAST_SLOT = slot;
        }
    }
}
type Owner = P<Holder>;
fn owner_with_slot() -> Owner {
    unsafe { SLOT = Some(Slot::new(Child(0))) };
    P::new(Holder { v: 5 })
}
fn slot() -> &'static mut Slot<Child> {
    unsafe { SLOT.as_mut().unwrap() }
}

// @check C13 quick timeout=2400 mem=24
// @encodes metrique::slot::{Slot::new, Slot::open, Slot::close, SlotGuard::deref_mut, SlotGuard::drop, Waiting::take_value}, keep_alive::{Parent, Guard} (flush guard built as AppendAndCloseOnDrop::flush_guard builds it), tokio::sync::oneshot::{channel, Sender::send, Receiver::try_recv}
// @bounds one slot opened in wait mode with the owner's flush guard; value written through the guard any u64; both orders as two harnesses (this one: first alternative); which of parent and slot guard is dropped first; second open attempted
// @oracle second open is None; nothing appended while the slot guard lives, whichever is dropped first; when both are gone the entry was appended exactly once and contains the slot value as last written; the rest of the entry (v) is intact
// @outside drops on different threads; wait_for_data().await (async executor); several slots per entry (thorough harness)
#[kani::proof]
#[kani::unwind(3)]
pub fn wait_mode_never_loses_value_a() {
    reset();
    let owner: Owner = owner_with_slot();
    let fg = owner.flush_guard();
    let mut guard = slot().open(OnParentDrop::Wait(fg)).expect("first open succeeds");
    assert!(slot().open(OnParentDrop::Discard).is_none(), "a slot can be opened at most once");
    let x: u64 = kani::any();
    guard.0 = x;
    let parent_first: bool = true;
    kani::cover!(true, "harness body reached");
    if parent_first {
        drop(owner);
        unsafe { assert!(APPENDS == 0 && CLOSES == 0, "the entry waits for the slot guard") };
        let y: u64 = kani::any();
        guard.0 = y; // still mutable after the parent is gone
        drop(guard);
        unsafe {
            assert!(APPENDS == 1 && CLOSES == 1);
            assert!(LAST_SLOT == Some(y), "value as last mutated through the guard");
            assert!(LAST_V == 5);
        }
    } else {
        drop(guard);
        unsafe { assert!(APPENDS == 0, "owner still alive") };
        drop(owner);
        unsafe {
            assert!(APPENDS == 1 && CLOSES == 1);
            assert!(LAST_SLOT == Some(x), "value as last mutated through the guard");
            assert!(LAST_V == 5);
        }
    }
}

// @check C13 quick timeout=2400 mem=24
// @encodes metrique::slot::{Slot::new, Slot::open, Slot::close, SlotGuard::deref_mut, SlotGuard::drop, Waiting::take_value}, keep_alive::{Parent, Guard} (flush guard built as AppendAndCloseOnDrop::flush_guard builds it), tokio::sync::oneshot::{channel, Sender::send, Receiver::try_recv}
// @bounds one slot opened in wait mode with the owner's flush guard; value written through the guard any u64; both orders as two harnesses (this one: second alternative); which of parent and slot guard is dropped first; second open attempted
// @oracle second open is None; nothing appended while the slot guard lives, whichever is dropped first; when both are gone the entry was appended exactly once and contains the slot value as last written; the rest of the entry (v) is intact
// @outside drops on different threads; wait_for_data().await (async executor); several slots per entry (thorough harness)
#[kani::proof]
#[kani::unwind(3)]
pub fn wait_mode_never_loses_value_b() {
    reset();
    let owner: Owner = owner_with_slot();
    let fg = owner.flush_guard();
    let mut guard = slot().open(OnParentDrop::Wait(fg)).expect("first open succeeds");
    assert!(slot().open(OnParentDrop::Discard).is_none(), "a slot can be opened at most once");
    let x: u64 = kani::any();
    guard.0 = x;
    let parent_first: bool = false;
    kani::cover!(true, "harness body reached");
    if parent_first {
        drop(owner);
        unsafe { assert!(APPENDS == 0 && CLOSES == 0, "the entry waits for the slot guard") };
        let y: u64 = kani::any();
        guard.0 = y; // still mutable after the parent is gone
        drop(guard);
        unsafe {
            assert!(APPENDS == 1 && CLOSES == 1);
            assert!(LAST_SLOT == Some(y), "value as last mutated through the guard");
            assert!(LAST_V == 5);
        }
    } else {
        drop(guard);
        unsafe { assert!(APPENDS == 0, "owner still alive") };
        drop(owner);
        unsafe {
            assert!(APPENDS == 1 && CLOSES == 1);
            assert!(LAST_SLOT == Some(x), "value as last mutated through the guard");
            assert!(LAST_V == 5);
        }
    }
}


// @check C13 quick timeout=2400 mem=24
// @encodes metrique::slot::{Slot::open, Slot::close, SlotGuard::drop}, OnParentDrop::Discard, tokio oneshot
// @bounds one slot opened in discard mode; both drop orders as two harnesses of parent and guard; value any u64
// @oracle entry appended exactly when the parent is dropped; slot value present iff the guard was dropped before; v intact either way; dropping the guard afterwards changes nothing and does not panic
#[kani::proof]
#[kani::unwind(3)]
pub fn discard_mode_present_iff_guard_first_a() {
    reset();
    let owner: Owner = owner_with_slot();
    let mut guard = slot().open(OnParentDrop::Discard).expect("first open succeeds");
    let x: u64 = kani::any();
    guard.0 = x;
    let parent_first: bool = true;
    kani::cover!(true, "harness body reached");
    if parent_first {
        assert!(!guard.parent_is_closed());
        drop(owner);
        unsafe {
            assert!(APPENDS == 1 && CLOSES == 1, "discard mode does not delay the entry");
            assert!(LAST_SLOT.is_none(), "value absent: guard still open at close");
            assert!(LAST_V == 5, "rest of the entry unaffected");
        }
        assert!(guard.parent_is_closed());
        drop(guard);
        unsafe { assert!(APPENDS == 1, "never appended twice") };
    } else {
        drop(guard);
        unsafe { assert!(APPENDS == 0) };
        drop(owner);
        unsafe {
            assert!(APPENDS == 1 && CLOSES == 1);
            assert!(LAST_SLOT == Some(x), "value present: guard dropped before the entry was closed");
            assert!(LAST_V == 5);
        }
    }
}

// @check C13 quick timeout=2400 mem=24
// @encodes metrique::slot::{Slot::open, Slot::close, SlotGuard::drop}, OnParentDrop::Discard, tokio oneshot
// @bounds one slot opened in discard mode; both drop orders as two harnesses of parent and guard; value any u64
// @oracle entry appended exactly when the parent is dropped; slot value present iff the guard was dropped before; v intact either way; dropping the guard afterwards changes nothing and does not panic
#[kani::proof]
#[kani::unwind(3)]
pub fn discard_mode_present_iff_guard_first_b() {
    reset();
    let owner: Owner = owner_with_slot();
    let mut guard = slot().open(OnParentDrop::Discard).expect("first open succeeds");
    let x: u64 = kani::any();
    guard.0 = x;
    let parent_first: bool = false;
    kani::cover!(true, "harness body reached");
    if parent_first {
        assert!(!guard.parent_is_closed());
        drop(owner);
        unsafe {
            assert!(APPENDS == 1 && CLOSES == 1, "discard mode does not delay the entry");
            assert!(LAST_SLOT.is_none(), "value absent: guard still open at close");
            assert!(LAST_V == 5, "rest of the entry unaffected");
        }
        assert!(guard.parent_is_closed());
        drop(guard);
        unsafe { assert!(APPENDS == 1, "never appended twice") };
    } else {
        drop(guard);
        unsafe { assert!(APPENDS == 0) };
        drop(owner);
        unsafe {
            assert!(APPENDS == 1 && CLOSES == 1);
            assert!(LAST_SLOT == Some(x), "value present: guard dropped before the entry was closed");
            assert!(LAST_V == 5);
        }
    }
}


// @disabled-check (CBMC needs more than 20 GB for this one: not registered, see DESIGN.md C13) C13 thorough timeout=3600 mem=40
// @encodes metrique::slot::{Slot::open(Wait), SlotGuard::drop}, keep_alive::{Parent, DropAll} (force-flush guard built as AppendAndCloseOnDrop::force_flush_guard builds it)
// @bounds wait-mode slot + a force-flush guard; parent dropped, then both orders (two harnesses) of {force guard, slot guard}
// @oracle force guard first => entry appended at once without the slot value (the documented exception); slot guard first => appended with the value; exactly once either way
#[kani::proof]
#[kani::unwind(3)]
pub fn force_flush_releases_waiting_entry_a() {
    reset();
    let owner: Owner = owner_with_slot();
    let fg = owner.flush_guard();
    let mut guard = slot().open(OnParentDrop::Wait(fg)).unwrap();
    let force = owner.force_flush_guard();
    let x: u64 = kani::any();
    guard.0 = x;
    drop(owner);
    unsafe { assert!(APPENDS == 0) };
    let force_first: bool = true;
    kani::cover!(true, "harness body reached");
    if force_first {
        drop(force);
        unsafe {
            assert!(APPENDS == 1 && LAST_SLOT.is_none() && LAST_V == 5, "force flush releases the entry without the slot value");
        }
        drop(guard);
        unsafe { assert!(APPENDS == 1 && CLOSES == 1, "never twice") };
    } else {
        drop(guard);
        unsafe { assert!(APPENDS == 1 && LAST_SLOT == Some(x) && LAST_V == 5) };
        drop(force);
        unsafe { assert!(APPENDS == 1 && CLOSES == 1, "never twice") };
    }
}

// @disabled-check (CBMC needs more than 20 GB for this one: not registered, see DESIGN.md C13) C13 thorough timeout=3600 mem=40
// @encodes metrique::slot::{Slot::open(Wait), SlotGuard::drop}, keep_alive::{Parent, DropAll} (force-flush guard built as AppendAndCloseOnDrop::force_flush_guard builds it)
// @bounds wait-mode slot + a force-flush guard; parent dropped, then both orders (two harnesses) of {force guard, slot guard}
// @oracle force guard first => entry appended at once without the slot value (the documented exception); slot guard first => appended with the value; exactly once either way
#[kani::proof]
#[kani::unwind(3)]
pub fn force_flush_releases_waiting_entry_b() {
    reset();
    let owner: Owner = owner_with_slot();
    let fg = owner.flush_guard();
    let mut guard = slot().open(OnParentDrop::Wait(fg)).unwrap();
    let force = owner.force_flush_guard();
    let x: u64 = kani::any();
    guard.0 = x;
    drop(owner);
    unsafe { assert!(APPENDS == 0) };
    let force_first: bool = false;
    kani::cover!(true, "harness body reached");
    if force_first {
        drop(force);
        unsafe {
            assert!(APPENDS == 1 && LAST_SLOT.is_none() && LAST_V == 5, "force flush releases the entry without the slot value");
        }
        drop(guard);
        unsafe { assert!(APPENDS == 1 && CLOSES == 1, "never twice") };
    } else {
        drop(guard);
        unsafe { assert!(APPENDS == 1 && LAST_SLOT == Some(x) && LAST_V == 5) };
        drop(force);
        unsafe { assert!(APPENDS == 1 && CLOSES == 1, "never twice") };
    }
}


// @check C13 quick timeout=2400 mem=24
// @encodes metrique::slot::{LazySlot::open, LazySlot::close, Slot::open, SlotGuard::drop}
// @bounds LazySlot: never opened / opened once (wait-less) and guard dropped or kept; second open
// @oracle never opened => None; second open is None; closed value == written value iff the guard was dropped before close
#[kani::proof]
#[kani::unwind(3)]
pub fn lazy_slot_single_open() {
    let mut lazy: LazySlot<Child> = LazySlot::default();
    let opened: bool = kani::any();
    if !opened {
        assert!(lazy.close().is_none(), "unopened lazy slot contributes nothing");
        return;
    }
    let x: u64 = kani::any();
    let mut g = lazy.open(Child(1), OnParentDrop::Discard).expect("first open");
    g.0 = x;
    assert!(lazy.open(Child(2), OnParentDrop::Discard).is_none(), "a lazy slot can be opened at most once");
    let guard_first: bool = kani::any();
    kani::cover!(guard_first, "guard dropped before close");
    if guard_first {
        drop(g);
        assert!(lazy.close() == Some(x));
    } else {
        assert!(lazy.close().is_none());
        drop(g);
    }
}
