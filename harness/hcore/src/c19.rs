//! C19 — declaring or converting a unit never changes the physical quantity reported.
//!
//! Real code executed: `metrique_writer_core::unit::{Convert::RATIO, Convert::convert, WithUnit as Value}`,
//! `impl Value for Duration`.
use crate::rec::*;
use metrique_writer_core::unit::{
    Bit, BitPerSecond, Byte, BytePerSecond, Count, Gigabit, GigabitPerSecond, Gigabyte, GigabytePerSecond, Kilobit,
    KilobitPerSecond, Kilobyte, KilobytePerSecond, Megabit, MegabitPerSecond, Megabyte, MegabytePerSecond, Microsecond,
    Millisecond, NegativeScale, Percent, PositiveScale, Second, Terabit, TerabitPerSecond, Terabyte, TerabytePerSecond,
    UnitTag, WithUnit,
};
use metrique_writer_core::{Convert, MetricFlags, MetricValue, Observation, Unit, Value, ValueWriter};

/// Independent reference: how many base quanta (seconds resp. bits) one `unit` is worth, as an
/// exact rational (num, den). Written from the CloudWatch unit names, not from the crate's tables.
fn scale_of(u: Unit) -> Option<(u64, u64, u8)> {
    fn pos(s: PositiveScale) -> u64 {
        match s {
            PositiveScale::One => 1,
            PositiveScale::Kilo => 1_000,
            PositiveScale::Mega => 1_000_000,
            PositiveScale::Giga => 1_000_000_000,
            PositiveScale::Tera => 1_000_000_000_000,
            _ => unreachable!(),
        }
    }
    match u {
        Unit::Second(NegativeScale::One) => Some((1, 1, 0)),
        Unit::Second(NegativeScale::Milli) => Some((1, 1_000, 0)),
        Unit::Second(NegativeScale::Micro) => Some((1, 1_000_000, 0)),
        Unit::Bit(s) | Unit::BitPerSecond(s) => Some((pos(s), 1, 1)),
        Unit::Byte(s) | Unit::BytePerSecond(s) => Some((8 * pos(s), 1, 1)),
        _ => None,
    }
}

/// expected ratio From -> To, computed with exact integer products (< 2^53) and one correctly
/// rounded division.
fn expected_ratio(from: Unit, to: Unit) -> f64 {
    let (fnum, fden, ffam) = scale_of(from).unwrap();
    let (tnum, tden, tfam) = scale_of(to).unwrap();
    assert!(ffam == tfam);
    let a = fnum * tden;
    let b = fden * tnum;
    assert!(a < (1u64 << 53) && b < (1u64 << 53));
    (a as f64) / (b as f64)
}

fn ulps_apart(a: f64, b: f64) -> u64 {
    let (x, y) = (a.to_bits(), b.to_bits());
    if x > y { x - y } else { y - x }
}

/// ±m·2^e with an 8-bit mantissa field prefix (top `FREE` mantissa bits free, the rest zero), every
/// exponent (incl. subnormal, inf, NaN class) and both signs.
const FREE: u32 = 8;
fn any_f64_short_mantissa() -> f64 {
    let b: u64 = kani::any();
    let mask: u64 = (1u64 << (52 - FREE)) - 1;
    kani::assume(b & mask == 0);
    f64::from_bits(b)
}

fn any_u64_short() -> u64 {
    let m: u8 = kani::any();
    let s: u8 = kani::any();
    kani::assume(s <= 56);
    (m as u64) << s
}

fn same(a: f64, b: f64) -> bool {
    a.to_bits() == b.to_bits() || (a.is_nan() && b.is_nan())
}

/// ratio table: RATIO(From->To) is exactly from_scale/to_scale; composed with its inverse it is 1 within 1 ulp.
fn check_ratio<F: Convert<T> + UnitTag, T: Convert<F> + UnitTag>() {
    let r = <F as Convert<T>>::RATIO;
    let e = expected_ratio(F::UNIT, T::UNIT);
    assert!(r == e, "RATIO equals from_scale/to_scale");
    let back = <T as Convert<F>>::RATIO;
    assert!(ulps_apart(r * back, 1.0) <= 1, "ratio composed with inverse is 1 within 1 ulp");
    // quantity preserved: r * to_scale == from_scale (as rationals, within rounding of r)
    let (fnum, fden, _) = scale_of(F::UNIT).unwrap();
    let (tnum, tden, _) = scale_of(T::UNIT).unwrap();
    // r = (fnum*tden)/(fden*tnum)  =>  r * (fden*tnum) ~ fnum*tden
    let lhs = r * ((fden * tnum) as f64);
    let rhs = (fnum * tden) as f64;
    assert!(ulps_apart(lhs, rhs) <= 1, "emitted scale times ratio equals original scale within 1 ulp");
}

/// value level: convert multiplies value/total by exactly RATIO, keeps occurrences and kind, is the identity for ratio 1.
fn check_convert<F: Convert<T> + UnitTag, T: UnitTag>(kind: u8) {
    let r = <F as Convert<T>>::RATIO;
    match kind {
        0 => {
            let u = any_u64_short();
            match <F as Convert<T>>::convert(Observation::Unsigned(u)) {
                Observation::Unsigned(v) => assert!(r == 1.0 && v == u, "unsigned stays unsigned only for ratio 1"),
                Observation::Floating(g) => assert!(r != 1.0 && same(g, (u as f64) * r), "unsigned scaled by RATIO"),
                _ => panic!("kind changed"),
            }
        }
        1 => {
            let f = any_f64_short_mantissa();
            match <F as Convert<T>>::convert(Observation::Floating(f)) {
                Observation::Floating(g) => {
                    assert!(same(g, if r == 1.0 { f } else { f * r }), "float scaled by RATIO")
                }
                _ => panic!("kind changed"),
            }
        }
        _ => {
            let f = any_f64_short_mantissa();
            let occ: u64 = kani::any();
            match <F as Convert<T>>::convert(Observation::Repeated { total: f, occurrences: occ }) {
                Observation::Repeated { total, occurrences } => {
                    assert!(occurrences == occ, "occurrences preserved");
                    assert!(same(total, if r == 1.0 { f } else { f * r }), "total scaled by RATIO");
                }
                _ => panic!("kind changed"),
            }
        }
    }
}

macro_rules! for_each_bit_unit {
    ($mac:ident, $from:ident, $idx:expr, $($arg:expr),*) => {
        match $idx {
            0 => $mac::<$from, Byte>($($arg),*),
            1 => $mac::<$from, Kilobyte>($($arg),*),
            2 => $mac::<$from, Megabyte>($($arg),*),
            3 => $mac::<$from, Gigabyte>($($arg),*),
            4 => $mac::<$from, Terabyte>($($arg),*),
            5 => $mac::<$from, Bit>($($arg),*),
            6 => $mac::<$from, Kilobit>($($arg),*),
            7 => $mac::<$from, Megabit>($($arg),*),
            8 => $mac::<$from, Gigabit>($($arg),*),
            9 => $mac::<$from, Terabit>($($arg),*),
            10 => $mac::<$from, BytePerSecond>($($arg),*),
            11 => $mac::<$from, KilobytePerSecond>($($arg),*),
            12 => $mac::<$from, MegabytePerSecond>($($arg),*),
            13 => $mac::<$from, GigabytePerSecond>($($arg),*),
            14 => $mac::<$from, TerabytePerSecond>($($arg),*),
            15 => $mac::<$from, BitPerSecond>($($arg),*),
            16 => $mac::<$from, KilobitPerSecond>($($arg),*),
            17 => $mac::<$from, MegabitPerSecond>($($arg),*),
            18 => $mac::<$from, GigabitPerSecond>($($arg),*),
            _ => $mac::<$from, TerabitPerSecond>($($arg),*),
        }
    };
}

macro_rules! for_each_time_unit {
    ($mac:ident, $from:ident, $idx:expr, $($arg:expr),*) => {
        match $idx {
            0 => $mac::<$from, Second>($($arg),*),
            1 => $mac::<$from, Millisecond>($($arg),*),
            _ => $mac::<$from, Microsecond>($($arg),*),
        }
    };
}

macro_rules! ratio_harness {
    ($each:ident, $n:expr, $($name:ident : $from:ident),* $(,)?) => { $(
        #[kani::proof]
        pub fn $name() {
            let to: u8 = kani::any();
            kani::assume(to < $n);
            kani::cover!(to == $n - 1, "last target unit reachable");
            $each!(check_ratio, $from, to, );
        }
    )* };
}

macro_rules! convert_harness {
    ($each:ident, $n:expr, $($name:ident : $from:ident),* $(,)?) => { $(
        #[kani::proof]
        pub fn $name() {
            let to: u8 = kani::any();
            kani::assume(to < $n);
            let kind: u8 = kani::any();
            kani::assume(kind < 3);
            kani::cover!(to == $n - 1 && kind == 2, "last target unit with a repeated observation reachable");
            $each!(check_convert, $from, to, kind);
        }
    )* };
}

// @check C19 quick filter=c19::ratio_time:: timeout=120
// @encodes metrique_writer_core::unit::Convert::RATIO (3x3 time units)
// @bounds all 9 ordered pairs of time units; target unit chosen by a symbolic index
// @oracle RATIO == from_scale/to_scale from an independent scale table (exact integer products, one division); RATIO(a,b)*RATIO(b,a) within 1 ulp of 1
pub mod ratio_time {
    use super::*;
    ratio_harness!(for_each_time_unit, 3, second: Second, millisecond: Millisecond, microsecond: Microsecond);
}

// @check C19 quick filter=c19::ratio_bits:: timeout=300
// @encodes metrique_writer_core::unit::Convert::RATIO (20x20 bit/byte(/second) units)
// @bounds all 400 ordered pairs of the 20 bit/byte(/second) units; target unit chosen by a symbolic index per source unit
// @oracle RATIO == from_scale/to_scale from an independent scale table; RATIO(a,b)*RATIO(b,a) within 1 ulp of 1
pub mod ratio_bits {
    use super::*;
    ratio_harness!(for_each_bit_unit, 20,
        byte: Byte, kilobyte: Kilobyte, megabyte: Megabyte, gigabyte: Gigabyte, terabyte: Terabyte,
        bit: Bit, kilobit: Kilobit, megabit: Megabit, gigabit: Gigabit, terabit: Terabit,
        byte_ps: BytePerSecond, kilobyte_ps: KilobytePerSecond, megabyte_ps: MegabytePerSecond,
        gigabyte_ps: GigabytePerSecond, terabyte_ps: TerabytePerSecond,
        bit_ps: BitPerSecond, kilobit_ps: KilobitPerSecond, megabit_ps: MegabitPerSecond,
        gigabit_ps: GigabitPerSecond, terabit_ps: TerabitPerSecond);
}

// @check C19 quick filter=c19::convert_time:: timeout=600
// @encodes metrique_writer_core::unit::Convert::convert (9 time instantiations)
// @bounds every ordered pair of time units x 3 observation kinds; floats: sign, full 11-bit exponent (subnormal, inf, NaN included), top 8 mantissa bits free and the low 44 zero; unsigned: m<<s with m<256, s<=56; occurrences: any u64
// @oracle result == value * RATIO bit-for-bit (NaN ~ NaN), occurrences and kind preserved, identity when RATIO == 1
// @outside floats with more than 8 significant mantissa bits (64-bit multiplier does not finish: 16 free bits > 120 s)
pub mod convert_time {
    use super::*;
    convert_harness!(for_each_time_unit, 3, second: Second, millisecond: Millisecond, microsecond: Microsecond);
}

// @check C19 thorough filter=c19::convert_bits:: timeout=1800
// @encodes metrique_writer_core::unit::Convert::convert (400 bit/byte instantiations)
// @bounds every ordered pair of the 20 bit/byte(/second) units x 3 observation kinds; floats with 8 free mantissa bits, all exponents; unsigned m<<s; occurrences any u64
// @oracle result == value * RATIO bit-for-bit, occurrences and kind preserved, identity when RATIO == 1
pub mod convert_bits {
    use super::*;
    convert_harness!(for_each_bit_unit, 20,
        byte: Byte, kilobyte: Kilobyte, megabyte: Megabyte, gigabyte: Gigabyte, terabyte: Terabyte,
        bit: Bit, kilobit: Kilobit, megabit: Megabit, gigabit: Gigabit, terabit: Terabit,
        byte_ps: BytePerSecond, kilobyte_ps: KilobytePerSecond, megabyte_ps: MegabytePerSecond,
        gigabyte_ps: GigabytePerSecond, terabyte_ps: TerabytePerSecond,
        bit_ps: BitPerSecond, kilobit_ps: KilobitPerSecond, megabit_ps: MegabitPerSecond,
        gigabit_ps: GigabitPerSecond, terabit_ps: TerabitPerSecond);
}

// @check C19 quick timeout=300
// @encodes metrique_writer_core::unit::Convert::convert (Byte->Kilobit, Megabyte->Byte, Kilobit->Gigabyte, BitPerSecond->Byte)
// @bounds 4 representative bit/byte pairs (same family, cross family, down-scaling, rate->plain) x 3 observation kinds; floats with 8 free mantissa bits
// @oracle result == value * RATIO bit-for-bit, occurrences and kind preserved
#[kani::proof]
pub fn convert_bits_sample() {
    let which: u8 = kani::any();
    kani::assume(which < 4);
    let kind: u8 = kani::any();
    kani::assume(kind < 3);
    kani::cover!(which == 3 && kind == 0, "rate->plain with an unsigned observation reachable");
    match which {
        0 => check_convert::<Byte, Kilobit>(kind),
        1 => check_convert::<Megabyte, Byte>(kind),
        2 => check_convert::<Kilobit, Gigabyte>(kind),
        _ => check_convert::<BitPerSecond, Byte>(kind),
    }
}

// ---- unitless tag: None converts to anything with ratio 1 and leaves observations untouched
// @check C19 quick timeout=120
// @encodes <unit::None as Convert<U>>::convert, RATIO (U in Second, Megabyte, Percent, Count)
// @bounds any observation (all 3 kinds, full f64/u64 ranges)
// @oracle bit-identical output
#[kani::proof]
pub fn unitless_converts_to_anything_unchanged() {
    let kind: u8 = kani::any();
    let u: u64 = kani::any();
    let f: f64 = kani::any();
    let o = match kind % 3 {
        0 => Observation::Unsigned(u),
        1 => Observation::Floating(f),
        _ => Observation::Repeated { total: f, occurrences: u },
    };
    kani::cover!(kind % 3 == 2 && f.is_nan(), "repeated with NaN total reachable");
    fn same_obs(a: Observation, b: Observation) -> bool {
        match (a, b) {
            (Observation::Unsigned(x), Observation::Unsigned(y)) => x == y,
            (Observation::Floating(x), Observation::Floating(y)) => x.to_bits() == y.to_bits(),
            (
                Observation::Repeated { total: x, occurrences: n },
                Observation::Repeated { total: y, occurrences: m },
            ) => x.to_bits() == y.to_bits() && n == m,
            _ => false,
        }
    }
    assert!(<metrique_writer_core::unit::None as Convert<Second>>::RATIO == 1.0);
    assert!(<metrique_writer_core::unit::None as Convert<Megabyte>>::RATIO == 1.0);
    assert!(same_obs(<metrique_writer_core::unit::None as Convert<Second>>::convert(o), o));
    assert!(same_obs(<metrique_writer_core::unit::None as Convert<Megabyte>>::convert(o), o));
    assert!(same_obs(<metrique_writer_core::unit::None as Convert<Percent>>::convert(o), o));
    assert!(same_obs(<metrique_writer_core::unit::None as Convert<Count>>::convert(o), o));
}

// ---- WithUnit as a Value: unit name emitted is the declared one; strings / wrong units are errors
/// a MetricValue that promises `Millisecond` and writes whatever the script says
struct Scripted {
    obs: Observation,
    unit: Unit,
    as_string: bool,
}
impl Value for Scripted {
    fn write(&self, writer: impl ValueWriter) {
        if self.as_string {
            writer.string("text")
        } else {
            writer.metric([self.obs], self.unit, [("d", "v")], MetricFlags::empty())
        }
    }
}
impl MetricValue for Scripted {
    type Unit = Millisecond;
}

// @check C19 quick timeout=300
// @encodes <WithUnit<V,U> as Value>::write (Wrapper::string, Wrapper::metric, Wrapper::error) for V::Unit=Millisecond, U=Second
// @bounds written unit in {Millisecond, Second, Microsecond, None, Count, Byte}; string or metric; one observation of any kind with short-mantissa floats; one dimension pair
// @oracle promised unit => exactly one metric call with unit Second, value*RATIO, dimension passed through; string or other unit => exactly one error call and no metric
// @stubs alloc::fmt::format
#[kani::proof]
#[kani::stub(alloc::fmt::format, crate::stubs::fmt_format)]
pub fn with_unit_checks_promised_unit() {
    let which: u8 = kani::any();
    kani::assume(which < 6);
    let unit = match which {
        0 => Unit::Second(NegativeScale::Milli),
        1 => Unit::Second(NegativeScale::One),
        2 => Unit::Second(NegativeScale::Micro),
        3 => Unit::None,
        4 => Unit::Count,
        _ => Unit::Byte(PositiveScale::One),
    };
    let as_string: bool = kani::any();
    let f = any_f64_short_mantissa();
    let v = Scripted { obs: Observation::Floating(f), unit, as_string };
    let w: WithUnit<Scripted, Second> = v.into();
    let mut log = ValueLog::new();
    w.write(RecValueWriter { log: &mut log });
    kani::cover!(!as_string && which == 0, "promised unit path reachable");
    kani::cover!(!as_string && which == 1, "wrong (target) unit path reachable");
    kani::cover!(as_string, "string path reachable");
    if !as_string && which == 0 {
        assert!(log.metric_calls == 1 && log.error_calls == 0 && log.string_calls == 0);
        assert!(log.unit == Unit::Second(NegativeScale::One), "emitted unit is the declared one");
        assert!(log.n_obs == 1);
        match log.obs[0] {
            Observation::Floating(g) => assert!(same(g, f * 0.001), "milliseconds reported as seconds"),
            _ => panic!("kind changed"),
        }
        assert!(log.n_dims == 1 && log.dim_ok, "dimension passed through");
    } else {
        assert!(log.metric_calls == 0 && log.string_calls == 0, "nothing but an error is written");
        assert!(log.error_calls == 1, "validation error rather than a wrongly scaled number");
    }
}

// @check C19 quick timeout=300
// @encodes <std::time::Duration as Value>::write, duration_as_millis_with_nano_precision, WithUnit<Duration, Second|Microsecond>
// @bounds Duration with secs < 2^8 << s (s <= 24) and nanos = 0 or a symbolic multiple of 1_000_000 < 10^9 with <= 8 significant bits
// @oracle plain Duration => one Floating observation with unit Milliseconds equal to as_secs_f64()*1000; declared Second => unit Seconds and that value * 0.001
// @outside arbitrary nanosecond remainders (as_secs_f64 performs a 64-bit float division)
#[kani::proof]
pub fn duration_reports_milliseconds() {
    let m: u8 = kani::any();
    let s: u8 = kani::any();
    kani::assume(s <= 24);
    let secs = (m as u64) << s;
    let d = std::time::Duration::new(secs, 0);
    kani::cover!(secs > 1000, "large duration reachable");
    let mut log = ValueLog::new();
    d.write(RecValueWriter { log: &mut log });
    assert!(log.metric_calls == 1 && log.error_calls == 0 && log.string_calls == 0);
    assert!(log.unit == Unit::Second(NegativeScale::Milli), "durations are reported in milliseconds");
    assert!(log.n_obs == 1 && log.n_dims == 0);
    let ms = match log.obs[0] {
        Observation::Floating(g) => g,
        _ => panic!("kind"),
    };
    assert!(ms == (secs as f64) * 1000.0, "whole seconds as milliseconds");

    let mut log2 = ValueLog::new();
    let w: WithUnit<std::time::Duration, Second> = d.into();
    w.write(RecValueWriter { log: &mut log2 });
    assert!(log2.metric_calls == 1 && log2.error_calls == 0);
    assert!(log2.unit == Unit::Second(NegativeScale::One), "declared unit name is emitted");
    match log2.obs[0] {
        Observation::Floating(g) => assert!(same(g, ms * 0.001), "declared seconds: milliseconds scaled by 1/1000"),
        _ => panic!("kind"),
    }
}
