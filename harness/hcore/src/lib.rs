#![allow(dead_code, unused_imports, unexpected_cfgs)]
#[cfg(kani)]
pub mod rec;
#[cfg(kani)]
pub mod stubs;
#[cfg(kani)]
pub mod c19;

// written by /verif/check into a scratch copy of this crate when a counterexample is replayed natively
#[cfg(all(kani, verif_playback))]
mod playback_gen;
