//! Recording `ValueWriter` / `EntryWriter` into fixed-size logs (no heap growth under the solver).
use metrique_writer_core::{MetricFlags, Observation, Unit, ValidationError, ValueWriter};

pub const MAX_OBS: usize = 3;

pub struct ValueLog {
    pub metric_calls: u8,
    pub string_calls: u8,
    pub error_calls: u8,
    pub unit: Unit,
    pub n_obs: usize,
    pub obs: [Observation; MAX_OBS],
    pub n_dims: usize,
    /// every dimension pair seen was ("d","v")
    pub dim_ok: bool,
    pub has_flags: bool,
}

impl ValueLog {
    pub fn new() -> Self {
        ValueLog {
            metric_calls: 0,
            string_calls: 0,
            error_calls: 0,
            unit: Unit::None,
            n_obs: 0,
            obs: [Observation::Unsigned(0); MAX_OBS],
            n_dims: 0,
            dim_ok: true,
            has_flags: false,
        }
    }
}

pub struct RecValueWriter<'l> {
    pub log: &'l mut ValueLog,
}

impl ValueWriter for RecValueWriter<'_> {
    fn string(self, _value: &str) {
        self.log.string_calls += 1;
    }

    fn metric<'a>(
        self,
        distribution: impl IntoIterator<Item = Observation>,
        unit: Unit,
        dimensions: impl IntoIterator<Item = (&'a str, &'a str)>,
        flags: MetricFlags<'_>,
    ) {
        self.log.metric_calls += 1;
        self.log.unit = unit;
        for o in distribution {
            assert!(self.log.n_obs < MAX_OBS);
            self.log.obs[self.log.n_obs] = o;
            self.log.n_obs += 1;
        }
        for (k, v) in dimensions {
            self.log.n_dims += 1;
            if !(k.len() == 1 && v.len() == 1 && k.as_bytes()[0] == b'd' && v.as_bytes()[0] == b'v') {
                self.log.dim_ok = false;
            }
        }
        let _ = flags;
    }

    fn error(self, _error: ValidationError) {
        self.log.error_calls += 1;
    }
}
