//! Environment stubs (trusted base). Every harness names the ones it uses in `@stubs`.

/// `alloc::fmt::format`: message text is irrelevant to every property checked here.
pub fn fmt_format(_args: core::fmt::Arguments<'_>) -> String {
    String::new()
}
