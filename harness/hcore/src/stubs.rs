//! Environment stubs (trusted base). Every harness names the ones it uses in `@stubs`.

/// `alloc::fmt::format`: message text is irrelevant to every property checked here.
pub fn fmt_format(_args: core::fmt::Arguments<'_>) -> String {
    String::new()
}

/// `SmallVec::try_grow`: the inline capacity always suffices in these harnesses; the model asserts it, so a
/// spill (heap growth with a symbolic size, which CBMC cannot digest) fails loudly instead of being explored.
pub fn smallvec_try_grow<A: smallvec::Array>(
    v: &mut smallvec::SmallVec<A>,
    new_cap: usize,
) -> Result<(), smallvec::CollectionAllocErr> {
    let _ = v;
    assert!(new_cap <= A::size(), "verif-model: SmallVec would spill to the heap");
    Ok(())
}
