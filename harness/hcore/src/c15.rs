//! C15 — entry and value wrappers are transparent apart from their documented additions.
//!
//! Differential harnesses: the same scripted entry is written once plainly and once through a wrapper into a
//! recording `EntryWriter`; the two logs must agree event by event (symbolic index), up to the wrapper's documented
//! additions. Real code executed: `BoxEntry` (double-dispatch Dyn* bridge), `Merged`/`MergedRef`, `WithDimensions`
//! (as Entry and as Value), `ForceFlag` (as Entry and as Value), the `&`/`Box`/`Arc`/`Option` impls.
use metrique_writer_core::entry::{BoxEntry, SampleGroupElement};
use metrique_writer_core::value::{FlagConstructor, ForceFlag, MetricOptions, WithDimensions};
use metrique_writer_core::{
    Entry, EntryConfig, EntryWriter, MetricFlags, Observation, Unit, ValidationError, Value, ValueWriter,
};
use std::borrow::Cow;
use std::sync::Arc;
use std::time::{Duration, SystemTime};

const NAMES: [&str; 3] = ["a", "b", "c"];
const MAX_EV: usize = 4;
const MAX_DIM: usize = 3;

#[derive(Clone, Copy, Debug)]
pub struct Ev {
    kind: u8, // 1 timestamp, 2 config, 3 string, 4 metric, 5 error, 6 empty value (nothing written)
    name: u8,
    secs: u64,
    text: u8,
    n_obs: u8,
    obs_kind: [u8; 2],
    obs_bits: [u64; 2],
    obs_occ: [u64; 2],
    unit: u8,
    n_dims: u8,
    dims: [(u8, u8); MAX_DIM],
    flags: bool,
}
const EMPTY_EV: Ev = Ev {
    kind: 0, name: 0, secs: 0, text: 0, n_obs: 0, obs_kind: [0; 2], obs_bits: [0; 2], obs_occ: [0; 2], unit: 0,
    n_dims: 0, dims: [(0, 0); MAX_DIM], flags: false,
};

/// field-wise equality (array `==` compiles to a memcmp loop that would eat the unwinding budget)
impl PartialEq for Ev {
    fn eq(&self, o: &Ev) -> bool {
        self.kind == o.kind
            && self.name == o.name
            && self.secs == o.secs
            && self.text == o.text
            && self.n_obs == o.n_obs
            && self.obs_kind[0] == o.obs_kind[0]
            && self.obs_kind[1] == o.obs_kind[1]
            && self.obs_bits[0] == o.obs_bits[0]
            && self.obs_bits[1] == o.obs_bits[1]
            && self.obs_occ[0] == o.obs_occ[0]
            && self.obs_occ[1] == o.obs_occ[1]
            && self.unit == o.unit
            && self.n_dims == o.n_dims
            && self.dims[0].0 == o.dims[0].0
            && self.dims[0].1 == o.dims[0].1
            && self.dims[1].0 == o.dims[1].0
            && self.dims[1].1 == o.dims[1].1
            && self.dims[2].0 == o.dims[2].0
            && self.dims[2].1 == o.dims[2].1
            && self.flags == o.flags
    }
}

pub struct Log {
    ev: [Ev; MAX_EV],
    n: usize,
}
impl Log {
    fn new() -> Self {
        Log { ev: [EMPTY_EV; MAX_EV], n: 0 }
    }
    fn push(&mut self, e: Ev) {
        assert!(self.n < MAX_EV, "log full");
        self.ev[self.n] = e;
        self.n += 1;
    }
}
/// bit pattern with NaNs canonicalised (CBMC leaves a NaN's payload unconstrained across f64 <-> bits moves)
fn canon(f: f64) -> u64 {
    if f.is_nan() { 0x7ff8_0000_0000_0000 } else { f.to_bits() }
}
fn id(s: &str) -> u8 {
    if s.len() == 1 { s.as_bytes()[0] } else { 0xff }
}
fn unit_id(u: Unit) -> u8 {
    match u {
        Unit::None => 0,
        Unit::Count => 1,
        Unit::Percent => 2,
        _ => 9,
    }
}

struct RecVw<'l> {
    log: &'l mut Log,
    name: u8,
}
impl ValueWriter for RecVw<'_> {
    fn string(self, value: &str) {
        self.log.push(Ev { kind: 3, name: self.name, text: id(value), ..EMPTY_EV });
    }
    fn metric<'a>(
        self,
        distribution: impl IntoIterator<Item = Observation>,
        unit: Unit,
        dimensions: impl IntoIterator<Item = (&'a str, &'a str)>,
        flags: MetricFlags<'_>,
    ) {
        let mut e = Ev { kind: 4, name: self.name, unit: unit_id(unit), ..EMPTY_EV };
        for o in distribution {
            assert!((e.n_obs as usize) < 2);
            let i = e.n_obs as usize;
            match o {
                Observation::Unsigned(v) => {
                    e.obs_kind[i] = 1;
                    e.obs_bits[i] = v;
                }
                Observation::Floating(f) => {
                    e.obs_kind[i] = 2;
                    e.obs_bits[i] = canon(f);
                }
                Observation::Repeated { total, occurrences } => {
                    e.obs_kind[i] = 3;
                    e.obs_bits[i] = canon(total);
                    e.obs_occ[i] = occurrences;
                }
                _ => panic!(),
            }
            e.n_obs += 1;
        }
        for (k, v) in dimensions {
            assert!((e.n_dims as usize) < MAX_DIM);
            e.dims[e.n_dims as usize] = (id(k), id(v));
            e.n_dims += 1;
        }
        e.flags = flags.downcast::<Flag>().is_some();
        self.log.push(e);
    }
    fn error(self, _error: ValidationError) {
        self.log.push(Ev { kind: 5, name: self.name, ..EMPTY_EV });
    }
}
pub struct RecEw<'l> {
    log: &'l mut Log,
}
impl<'a> EntryWriter<'a> for RecEw<'_> {
    fn timestamp(&mut self, timestamp: SystemTime) {
        let secs = timestamp.duration_since(SystemTime::UNIX_EPOCH).unwrap_or_default().as_secs();
        self.log.push(Ev { kind: 1, secs, ..EMPTY_EV });
    }
    fn value(&mut self, name: impl Into<Cow<'a, str>>, value: &(impl Value + ?Sized)) {
        let name: Cow<'a, str> = name.into();
        let before = self.log.n;
        value.write(RecVw { log: &mut *self.log, name: id(&name) });
        if self.log.n == before {
            self.log.push(Ev { kind: 6, name: id(&name), ..EMPTY_EV });
        }
    }
    fn config(&mut self, _config: &'a dyn EntryConfig) {
        self.log.push(Ev { kind: 2, ..EMPTY_EV });
    }
}
fn record(e: &impl Entry) -> Log {
    let mut log = Log::new();
    e.write(&mut RecEw { log: &mut log });
    log
}

// ---- the scripted entry
#[derive(Debug)]
struct Cfg;
impl EntryConfig for Cfg {}
static CFG: Cfg = Cfg;

#[derive(Clone, Copy)]
struct Item {
    kind: u8, // 0 timestamp, 1 config, 2 string, 3 metric, 4 error value, 5 empty Option value
    name: u8, // index into NAMES
    secs: u32,
    text: u8,
    n_obs: u8,
    obs_kind: u8,
    bits: u64,
    occ: u64,
    unit: u8,
    dim: bool,
}
struct ScriptedValue(Item);
impl Value for ScriptedValue {
    fn write(&self, w: impl ValueWriter) {
        let it = &self.0;
        match it.kind {
            2 => w.string(NAMES[it.text as usize]),
            3 => {
                let o = match it.obs_kind {
                    0 => Observation::Unsigned(it.bits),
                    1 => Observation::Floating(f64::from_bits(it.bits)),
                    _ => Observation::Repeated { total: f64::from_bits(it.bits), occurrences: it.occ },
                };
                let unit = match it.unit {
                    0 => Unit::None,
                    1 => Unit::Count,
                    _ => Unit::Percent,
                };
                let obs = [o, Observation::Unsigned(it.occ)];
                // 0 observations is legal (e.g. an idle histogram) and must still reach the format
                let n = it.n_obs as usize;
                if it.dim {
                    w.metric(obs.into_iter().take(n), unit, [("b", "c")], MetricFlags::empty())
                } else {
                    w.metric(obs.into_iter().take(n), unit, [], MetricFlags::empty())
                }
            }
            4 => w.error(ValidationError::invalid(String::new())),
            _ => {}
        }
    }
}
struct Scripted {
    items: [Item; 2],
    n: usize,
    group: bool,
}
impl Entry for Scripted {
    fn write<'a>(&'a self, w: &mut impl EntryWriter<'a>) {
        let mut i = 0;
        while i < self.n {
            let it = self.items[i];
            match it.kind {
                0 => w.timestamp(SystemTime::UNIX_EPOCH + Duration::from_secs(it.secs as u64)),
                1 => w.config(&CFG),
                _ => w.value(NAMES[it.name as usize], &ScriptedValue(it)),
            }
            i += 1;
        }
    }
    fn sample_group(&self) -> impl Iterator<Item = SampleGroupElement> {
        if self.group {
            itertools_either(Some((Cow::Borrowed("a"), Cow::Borrowed("b"))))
        } else {
            itertools_either(None)
        }
    }
}
fn itertools_either(x: Option<SampleGroupElement>) -> impl Iterator<Item = SampleGroupElement> {
    x.into_iter()
}
fn any_item() -> Item {
    let it = Item {
        kind: kani::any(), name: kani::any(), secs: kani::any(), text: kani::any(), n_obs: kani::any(),
        obs_kind: kani::any(), bits: kani::any(), occ: kani::any(), unit: kani::any(), dim: kani::any(),
    };
    kani::assume(it.kind < 6 && it.name < 3 && it.text < 3 && it.obs_kind < 3 && it.unit < 3 && it.n_obs < 3);
    it
}
fn any_entry() -> Scripted {
    any_entry_upto(2)
}
fn any_entry_upto(max: usize) -> Scripted {
    let n: usize = kani::any();
    kani::assume(n <= max);
    Scripted { items: [any_item(), any_item()], n, group: kani::any() }
}
fn groups(e: &impl Entry) -> (usize, u8, u8) {
    let mut n = 0;
    let (mut k, mut v) = (0u8, 0u8);
    for (a, b) in e.sample_group() {
        n += 1;
        k = id(&a);
        v = id(&b);
    }
    (n, k, v)
}

fn same_logs(a: &Log, b: &Log) {
    assert!(a.n == b.n, "same number of items reach the format");
    let i: usize = kani::any();
    kani::assume(i < a.n);
    // compare copies: comparing through references into the arrays at a symbolic index produced counterexamples
    // that do not reproduce natively (see DESIGN.md, C15)
    let (x, y) = (a.ev[i], b.ev[i]);
    assert!(x == y, "same item at every position: kind, name, value, unit, dimensions, flags");
}

// ---- flags
#[derive(Debug)]
pub struct Flag;
impl MetricOptions for Flag {}
pub struct FlagCtor;
impl FlagConstructor for FlagCtor {
    fn construct() -> MetricFlags<'static> {
        MetricFlags::upcast(&Flag)
    }
}

// @check C15 quick timeout=2400 mem=30
// @encodes entry::boxed::{BoxEntry::new, DynEntry, EntryWriterToDyn/FromDyn, ValueToDyn/FromDyn, ValueWriterToDyn/FromDyn}, BoxEntry::sample_group
// @bounds one metric item with an EMPTY distribution and no dimension (other shapes: c15::boxed_metric::*, other item kinds: thorough box_entry_is_transparent_other_items); name, unit, sample group symbolic; originally: a timestamp / config / string / metric (0-2 observations of any kind with symbolic payload bits, unit in {None,Count,Percent}, 0-1 dimension pair) / validation error / empty value; sample group present or not
// @oracle log(BoxEntry(e)) == log(e) event by event (symbolic index): kind, name, timestamp, text, observations bit-for-bit, unit, dimensions, flags; sample_group identical
// @outside entries with more than 2 items / 2 observations / 1 dimension per value (SmallVec spill paths)
#[kani::proof]
#[kani::unwind(4)]
#[kani::stub(smallvec::SmallVec::try_grow, crate::stubs::smallvec_try_grow)]
pub fn box_entry_is_transparent() {
    box_metric(0, false)
}

macro_rules! box_metric_harness {
    ($($name:ident: $n:expr, $dim:expr;)*) => { $(
        #[kani::proof]
        #[kani::unwind(4)]
        #[kani::stub(smallvec::SmallVec::try_grow, crate::stubs::smallvec_try_grow)]
        pub fn $name() {
            box_metric($n, $dim)
        }
    )* };
}

// @check C15 quick filter=c15::boxed_metric:: timeout=2400 mem=30
// @encodes entry::boxed::* (same as box_entry_is_transparent)
// @bounds one metric item with a concrete number of observations (0, 1, 2) and 0 or 1 dimension pair per harness; observation kinds, payload bits, unit, name and sample group symbolic (a solver-chosen observation count makes the SmallVec bridge exhaust 30 GB)
// @oracle same as box_entry_is_transparent
pub mod boxed_metric {
    use super::*;
    box_metric_harness! {
        empty_with_dimension: 0, true;
        one_observation: 1, false;
        one_observation_with_dimension: 1, true;
        two_observations: 2, false;
        two_observations_with_dimension: 2, true;
    }
}

fn box_metric(n_obs: u8, dim: bool) {
    let mut it = any_item();
    it.kind = 3;
    it.n_obs = n_obs;
    it.dim = dim;
    let e = OneMetric { it, group: kani::any() };
    let plain = record(&e);
    let g0 = groups(&e);
    kani::cover!(plain.n == 1 && plain.ev[0].kind == 4, "the metric reaches the format");
    assert!(plain.n == 1 && plain.ev[0].n_obs == n_obs && plain.ev[0].n_dims == dim as u8);
    let boxed = BoxEntry::new(e);
    let wrapped = record(&boxed);
    same_logs(&plain, &wrapped);
    assert!(groups(&boxed) == g0, "sample group preserved by boxing");
    core::mem::forget(boxed);
}

/// an entry with exactly one metric value (keeps the other item kinds' code out of the BoxEntry harness, which is
/// dominated by the double-dispatch bridge: the all-kinds version exhausted 40 GB)
struct OneMetric {
    it: Item,
    group: bool,
}
struct MetricOnly(Item);
impl Value for MetricOnly {
    fn write(&self, w: impl ValueWriter) {
        let it = &self.0;
        let o = match it.obs_kind {
            0 => Observation::Unsigned(it.bits),
            1 => Observation::Floating(f64::from_bits(it.bits)),
            _ => Observation::Repeated { total: f64::from_bits(it.bits), occurrences: it.occ },
        };
        let unit = match it.unit {
            0 => Unit::None,
            1 => Unit::Count,
            _ => Unit::Percent,
        };
        let obs = [o, Observation::Unsigned(it.occ)];
        let n = it.n_obs as usize;
        if it.dim {
            w.metric(obs.into_iter().take(n), unit, [("b", "c")], MetricFlags::empty())
        } else {
            w.metric(obs.into_iter().take(n), unit, [], MetricFlags::empty())
        }
    }
}
impl Entry for OneMetric {
    fn write<'a>(&'a self, w: &mut impl EntryWriter<'a>) {
        w.value(NAMES[self.it.name as usize], &MetricOnly(self.it));
    }
    fn sample_group(&self) -> impl Iterator<Item = SampleGroupElement> {
        if self.group { itertools_either(Some((Cow::Borrowed("a"), Cow::Borrowed("b")))) } else { itertools_either(None) }
    }
}

// @disabled-check (needs more than 30 GB: not registered, see DESIGN.md C15) C15 thorough timeout=7200 mem=45
// @encodes entry::boxed::* (same as box_entry_is_transparent)
// @bounds scripted entry of one item of ANY kind (timestamp / config / string / metric / validation error / empty value)
// @oracle same
#[kani::proof]
#[kani::unwind(6)]
#[kani::stub(smallvec::SmallVec::try_grow, crate::stubs::smallvec_try_grow)]
pub fn box_entry_is_transparent_other_items() {
    let e = any_entry_upto(1);
    box_entry_check(e)
}

fn box_entry_check(e: Scripted) {
    let plain = record(&e);
    let g0 = groups(&e);
    kani::cover!(plain.n == 1, "one item");
    let boxed = BoxEntry::new(e);
    let wrapped = record(&boxed);
    same_logs(&plain, &wrapped);
    assert!(groups(&boxed) == g0, "sample group preserved by boxing");
    core::mem::forget(boxed);
}

macro_rules! pointer_harness {
    ($name:ident, |$e:ident| $wrap:expr) => {
        #[kani::proof]
        #[kani::unwind(6)]
        pub fn $name() {
            let $e = any_entry();
            let plain = record(&$e);
            let g0 = groups(&$e);
            kani::cover!(plain.n == 2, "two items");
            let w = $wrap;
            same_logs(&plain, &record(&w));
            assert!(groups(&w) == g0, "sample group preserved");
            core::mem::forget(w);
        }
    };
}

// @check C15 quick filter=c15::pointers:: timeout=1800 mem=14
// @encodes impl Entry for &T / Box<T> / Arc<T> / Option<T> (write and sample_group)
// @bounds the scripted entry of <= 2 symbolic items behind &&e, Box, Arc, Some (one harness each) and None
// @oracle identical log and sample group (None: empty log, no group)
pub mod pointers {
    use super::*;
    pointer_harness!(reference, |e| &e);
    pointer_harness!(boxed, |e| Box::new(e));
    pointer_harness!(arc, |e| Arc::new(e));
    pointer_harness!(some, |e| Some(e));

    #[kani::proof]
    #[kani::unwind(6)]
    pub fn none() {
        let o: Option<Scripted> = None;
        kani::cover!(true, "reached");
        assert!(record(&o).n == 0 && groups(&o).0 == 0, "an absent entry contributes nothing");
    }
}

fn merged_check(lg: &Log, le: &Log, lm: &Log, gg: (usize, u8, u8), ge: (usize, u8, u8), gm: (usize, u8, u8)) {
    kani::cover!(lg.n == 2 && le.n == 2, "four items in total");
    assert!(lm.n == lg.n + le.n, "every item of both entries, once");
    let i: usize = kani::any();
    kani::assume(i < lm.n);
    let (a, b) = if i < lg.n { (lm.ev[i], lg.ev[i]) } else { (lm.ev[i], le.ev[i - lg.n]) };
    assert!(a == b, "global fields come first, then the entry's own fields, all unaltered");
    assert!(gm.0 == gg.0 + ge.0, "sample groups of both parts are kept");
    if ge.0 == 1 {
        assert!(gm.1 == ge.1 && gm.2 == ge.2);
    }
}

// @check C15 quick timeout=1800 mem=14
// @encodes entry::merged::Merged::{write, sample_group}, Entry::merge
// @bounds globals entry of <= 2 symbolic items merged (by value) with an entry of <= 2 symbolic items
// @oracle log(merged) == log(globals) ++ log(entry): global fields first, then the entry's, nothing altered; sample groups chained in the same order
#[kani::proof]
#[kani::unwind(6)]
pub fn merged_globals_first_by_value() {
    let g = any_entry();
    let e = any_entry();
    let (lg, le) = (record(&g), record(&e));
    let (gg, ge) = (groups(&g), groups(&e));
    let m = g.merge(e);
    let lm = record(&m);
    let gm = groups(&m);
    merged_check(&lg, &le, &lm, gg, ge, gm);
    core::mem::forget(m);
}

// @check C15 quick timeout=1800 mem=14
// @encodes entry::merged::MergedRef::{write, sample_group}, Entry::merge_by_ref (what MergeGlobals streams use)
// @bounds same, merged by reference
// @oracle same as merged_globals_first_by_value
#[kani::proof]
#[kani::unwind(6)]
pub fn merged_globals_first_by_ref() {
    let g = any_entry();
    let e = any_entry();
    let (lg, le) = (record(&g), record(&e));
    let (gg, ge) = (groups(&g), groups(&e));
    let m = g.merge_by_ref(&e);
    let lm = record(&m);
    let gm = groups(&m);
    merged_check(&lg, &le, &lm, gg, ge, gm);
}

// @check C15 quick timeout=1800 mem=14
// @encodes value::dimensions::{WithDimensions as Entry (Wrapper EntryWriter + value writer), WithDimensions as Value}, MetricValue::with_dimension
// @bounds scripted entry of <= 2 items wrapped in WithDimensions<_, 1> carrying ("c","a")
// @oracle same items in the same order; every metric gets the extra pair appended AFTER its existing dimensions, strings / timestamps / configs / errors untouched; observations, unit, flags unchanged; sample group preserved
#[kani::proof]
#[kani::unwind(6)]
pub fn with_dimensions_appends_after_existing() {
    let e = any_entry();
    let plain = record(&e);
    let g0 = groups(&e);
    let w: WithDimensions<Scripted, 1> = WithDimensions::new_with_dimensions(e, [("c", "a")]);
    let wrapped = record(&w);
    let gw = groups(&w);
    kani::cover!(plain.n == 2 && plain.ev[0].kind == 4 && plain.ev[0].n_dims == 1, "metric that already has a dimension");
    assert!(wrapped.n == plain.n);
    let i: usize = kani::any();
    kani::assume(i < plain.n);
    let (p, q) = (plain.ev[i], wrapped.ev[i]);
    if p.kind == 4 {
        assert!(q.kind == 4 && q.name == p.name && q.n_obs == p.n_obs && q.obs_kind[0] == p.obs_kind[0] && q.obs_kind[1] == p.obs_kind[1] && q.obs_bits[0] == p.obs_bits[0] && q.obs_bits[1] == p.obs_bits[1] && q.obs_occ[0] == p.obs_occ[0] && q.obs_occ[1] == p.obs_occ[1] && q.unit == p.unit && q.flags == p.flags, "metric payload untouched");
        assert!(q.n_dims == p.n_dims + 1, "exactly one dimension added");
        if p.n_dims == 1 {
            assert!(q.dims[0].0 == p.dims[0].0 && q.dims[0].1 == p.dims[0].1, "existing dimensions stay first");
        }
        assert!(q.dims[p.n_dims as usize].0 == b'c' && q.dims[p.n_dims as usize].1 == b'a', "the extra dimension is appended after them");
    } else {
        assert!(q == p, "non-metric items are untouched");
    }
    assert!(gw == g0, "sample group preserved by attaching dimensions");
    core::mem::forget(w);
}

// @check C15 quick timeout=1800 mem=14
// @encodes value::force::{ForceFlag as Entry (ForceFlagEntryWriter), ForceFlag as Value (Wrapper)}, MetricFlags::try_merge
// @bounds scripted entry of <= 2 items wrapped in ForceFlag<_, FlagCtor>
// @oracle same items in the same order; metrics carry the forced flag, everything else identical; sample group preserved
#[kani::proof]
#[kani::unwind(6)]
pub fn force_flag_only_merges_flags() {
    let e = any_entry();
    let plain = record(&e);
    let g0 = groups(&e);
    let w: ForceFlag<Scripted, FlagCtor> = ForceFlag::from(e);
    let wrapped = record(&w);
    let gw = groups(&w);
    kani::cover!(plain.n == 2 && plain.ev[1].kind == 4, "a metric item");
    assert!(wrapped.n == plain.n);
    let i: usize = kani::any();
    kani::assume(i < plain.n);
    let (p, mut q) = (plain.ev[i], wrapped.ev[i]);
    if p.kind == 4 {
        assert!(q.flags && !p.flags, "flag merged into the metric");
        q.flags = false;
    }
    assert!(q == p, "everything but the flags is untouched");
    assert!(gw == g0, "sample group preserved by forcing flags");
    core::mem::forget(w);
}
