//! C15 — entry and value wrappers are transparent apart from their documented additions.
//!
//! Differential harnesses: the same scripted entry is written once plainly and once through a wrapper into a
//! recording `EntryWriter`; the two logs must agree event by event (symbolic index), up to the wrapper's documented
//! additions. Real code executed: `BoxEntry` (double-dispatch Dyn* bridge), `Merged`/`MergedRef`, `WithDimensions`
//! (as Entry and as Value), `ForceFlag` (as Entry and as Value), the `&`/`Box`/`Arc`/`Option` impls.
use metrique_writer_core::entry::{BoxEntry, SampleGroupElement};
use metrique_writer_core::value::{FlagConstructor, ForceFlag, MetricOptions, WithDimensions};
use metrique_writer_core::{
    Entry, EntryConfig, EntryWriter, MetricFlags, Observation, Unit, ValidationError, Value, ValueWriter,
};
use std::borrow::Cow;
use std::sync::Arc;
use std::time::{Duration, SystemTime};

const NAMES: [&str; 3] = ["a", "b", "c"];
const MAX_EV: usize = 6;
const MAX_DIM: usize = 3;

#[derive(Clone, Copy, Debug)]
pub struct Ev {
    kind: u8, // 1 timestamp, 2 config, 3 string, 4 metric, 5 error, 6 empty value (nothing written)
    name: u8,
    secs: u64,
    text: u8,
    n_obs: u8,
    obs_kind: [u8; 2],
    obs_bits: [u64; 2],
    obs_occ: [u64; 2],
    unit: u8,
    n_dims: u8,
    dims: [(u8, u8); MAX_DIM],
    flags: bool,
}
const EMPTY_EV: Ev = Ev {
    kind: 0, name: 0, secs: 0, text: 0, n_obs: 0, obs_kind: [0; 2], obs_bits: [0; 2], obs_occ: [0; 2], unit: 0,
    n_dims: 0, dims: [(0, 0); MAX_DIM], flags: false,
};

/// field-wise equality (array `==` compiles to a memcmp loop that would eat the unwinding budget)
impl PartialEq for Ev {
    fn eq(&self, o: &Ev) -> bool {
        self.kind == o.kind
            && self.name == o.name
            && self.secs == o.secs
            && self.text == o.text
            && self.n_obs == o.n_obs
            && self.obs_kind[0] == o.obs_kind[0]
            && self.obs_kind[1] == o.obs_kind[1]
            && self.obs_bits[0] == o.obs_bits[0]
            && self.obs_bits[1] == o.obs_bits[1]
            && self.obs_occ[0] == o.obs_occ[0]
            && self.obs_occ[1] == o.obs_occ[1]
            && self.unit == o.unit
            && self.n_dims == o.n_dims
            && self.dims[0].0 == o.dims[0].0
            && self.dims[0].1 == o.dims[0].1
            && self.dims[1].0 == o.dims[1].0
            && self.dims[1].1 == o.dims[1].1
            && self.dims[2].0 == o.dims[2].0
            && self.dims[2].1 == o.dims[2].1
            && self.flags == o.flags
    }
}

pub struct Log {
    ev: [Ev; MAX_EV],
    n: usize,
}
impl Log {
    fn new() -> Self {
        Log { ev: [EMPTY_EV; MAX_EV], n: 0 }
    }
    fn push(&mut self, e: Ev) {
        assert!(self.n < MAX_EV, "log full");
        self.ev[self.n] = e;
        self.n += 1;
    }
}
/// bit pattern with NaNs canonicalised (CBMC leaves a NaN's payload unconstrained across f64 <-> bits moves)
fn canon(f: f64) -> u64 {
    if f.is_nan() { 0x7ff8_0000_0000_0000 } else { f.to_bits() }
}
fn id(s: &str) -> u8 {
    if s.len() == 1 { s.as_bytes()[0] } else { 0xff }
}
fn unit_id(u: Unit) -> u8 {
    match u {
        Unit::None => 0,
        Unit::Count => 1,
        Unit::Percent => 2,
        _ => 9,
    }
}

struct RecVw<'l> {
    log: &'l mut Log,
    name: u8,
}
impl ValueWriter for RecVw<'_> {
    fn string(self, value: &str) {
        self.log.push(Ev { kind: 3, name: self.name, text: id(value), ..EMPTY_EV });
    }
    fn metric<'a>(
        self,
        distribution: impl IntoIterator<Item = Observation>,
        unit: Unit,
        dimensions: impl IntoIterator<Item = (&'a str, &'a str)>,
        flags: MetricFlags<'_>,
    ) {
        let mut e = Ev { kind: 4, name: self.name, unit: unit_id(unit), ..EMPTY_EV };
        for o in distribution {
            assert!((e.n_obs as usize) < 2);
            let i = e.n_obs as usize;
            match o {
                Observation::Unsigned(v) => {
                    e.obs_kind[i] = 1;
                    e.obs_bits[i] = v;
                }
                Observation::Floating(f) => {
                    e.obs_kind[i] = 2;
                    e.obs_bits[i] = canon(f);
                }
                Observation::Repeated { total, occurrences } => {
                    e.obs_kind[i] = 3;
                    e.obs_bits[i] = canon(total);
                    e.obs_occ[i] = occurrences;
                }
                _ => panic!(),
            }
            e.n_obs += 1;
        }
        for (k, v) in dimensions {
            assert!((e.n_dims as usize) < MAX_DIM);
            e.dims[e.n_dims as usize] = (id(k), id(v));
            e.n_dims += 1;
        }
        e.flags = flags.downcast::<Flag>().is_some();
        self.log.push(e);
    }
    fn error(self, _error: ValidationError) {
        self.log.push(Ev { kind: 5, name: self.name, ..EMPTY_EV });
    }
}
pub struct RecEw<'l> {
    log: &'l mut Log,
}
impl<'a> EntryWriter<'a> for RecEw<'_> {
    fn timestamp(&mut self, timestamp: SystemTime) {
        let secs = timestamp.duration_since(SystemTime::UNIX_EPOCH).unwrap_or_default().as_secs();
        self.log.push(Ev { kind: 1, secs, ..EMPTY_EV });
    }
    fn value(&mut self, name: impl Into<Cow<'a, str>>, value: &(impl Value + ?Sized)) {
        let name: Cow<'a, str> = name.into();
        let before = self.log.n;
        value.write(RecVw { log: &mut *self.log, name: id(&name) });
        if self.log.n == before {
            self.log.push(Ev { kind: 6, name: id(&name), ..EMPTY_EV });
        }
    }
    fn config(&mut self, _config: &'a dyn EntryConfig) {
        self.log.push(Ev { kind: 2, ..EMPTY_EV });
    }
}
fn record(e: &impl Entry) -> Log {
    let mut log = Log::new();
    e.write(&mut RecEw { log: &mut log });
    log
}

// ---- the scripted entry
#[derive(Debug)]
struct Cfg;
impl EntryConfig for Cfg {}
static CFG: Cfg = Cfg;

#[derive(Clone, Copy)]
struct Item {
    kind: u8, // 0 timestamp, 1 config, 2 string, 3 metric, 4 error value, 5 empty Option value
    name: u8, // index into NAMES
    secs: u32,
    text: u8,
    n_obs: u8,
    obs_kind: u8,
    bits: u64,
    occ: u64,
    unit: u8,
    dim: bool,
}
struct ScriptedValue(Item);
impl Value for ScriptedValue {
    fn write(&self, w: impl ValueWriter) {
        let it = &self.0;
        match it.kind {
            2 => w.string(NAMES[it.text as usize]),
            3 => {
                let o = match it.obs_kind {
                    0 => Observation::Unsigned(it.bits),
                    1 => Observation::Floating(f64::from_bits(it.bits)),
                    _ => Observation::Repeated { total: f64::from_bits(it.bits), occurrences: it.occ },
                };
                let unit = match it.unit {
                    0 => Unit::None,
                    1 => Unit::Count,
                    _ => Unit::Percent,
                };
                let obs = [o, Observation::Unsigned(it.occ)];
                // 0 observations is legal (e.g. an idle histogram) and must still reach the format
                let n = it.n_obs as usize;
                if it.dim {
                    w.metric(obs.into_iter().take(n), unit, [("b", "c")], MetricFlags::empty())
                } else {
                    w.metric(obs.into_iter().take(n), unit, [], MetricFlags::empty())
                }
            }
            4 => w.error(ValidationError::invalid(String::new())),
            _ => {}
        }
    }
}
struct Scripted {
    items: [Item; 2],
    n: usize,
    group: bool,
}
impl Entry for Scripted {
    fn write<'a>(&'a self, w: &mut impl EntryWriter<'a>) {
        let mut i = 0;
        while i < self.n {
            let it = self.items[i];
            match it.kind {
                0 => w.timestamp(SystemTime::UNIX_EPOCH + Duration::from_secs(it.secs as u64)),
                1 => w.config(&CFG),
                _ => w.value(NAMES[it.name as usize], &ScriptedValue(it)),
            }
            i += 1;
        }
    }
    fn sample_group(&self) -> impl Iterator<Item = SampleGroupElement> {
        if self.group {
            itertools_either(Some((Cow::Borrowed("a"), Cow::Borrowed("b"))))
        } else {
            itertools_either(None)
        }
    }
}
fn itertools_either(x: Option<SampleGroupElement>) -> impl Iterator<Item = SampleGroupElement> {
    x.into_iter()
}
fn any_item() -> Item {
    let it = Item {
        kind: kani::any(), name: kani::any(), secs: kani::any(), text: kani::any(), n_obs: kani::any(),
        obs_kind: kani::any(), bits: kani::any(), occ: kani::any(), unit: kani::any(), dim: kani::any(),
    };
    kani::assume(it.kind < 6 && it.name < 3 && it.text < 3 && it.obs_kind < 3 && it.unit < 3 && it.n_obs < 3);
    it
}
fn any_entry() -> Scripted {
    let n: usize = kani::any();
    kani::assume(n <= 2);
    Scripted { items: [any_item(), any_item()], n, group: kani::any() }
}
fn groups(e: &impl Entry) -> (usize, u8, u8) {
    let mut n = 0;
    let (mut k, mut v) = (0u8, 0u8);
    for (a, b) in e.sample_group() {
        n += 1;
        k = id(&a);
        v = id(&b);
    }
    (n, k, v)
}

fn same_logs(a: &Log, b: &Log) {
    assert!(a.n == b.n, "same number of items reach the format");
    let i: usize = kani::any();
    kani::assume(i < a.n);
    assert!(a.ev[i] == b.ev[i], "same item at every position: kind, name, value, unit, dimensions, flags");
}

// ---- flags
#[derive(Debug)]
pub struct Flag;
impl MetricOptions for Flag {}
pub struct FlagCtor;
impl FlagConstructor for FlagCtor {
    fn construct() -> MetricFlags<'static> {
        MetricFlags::upcast(&Flag)
    }
}

// @check C15 quick timeout=1800 mem=14
// @encodes entry::boxed::{BoxEntry::new, DynEntry, EntryWriterToDyn/FromDyn, ValueToDyn/FromDyn, ValueWriterToDyn/FromDyn}, BoxEntry::sample_group
// @bounds scripted entry of <= 2 items, each symbolically a timestamp / config / string / metric (0-2 observations of any kind with symbolic payload bits, unit in {None,Count,Percent}, 0-1 dimension pair) / validation error / empty value; sample group present or not
// @oracle log(BoxEntry(e)) == log(e) event by event (symbolic index): kind, name, timestamp, text, observations bit-for-bit, unit, dimensions, flags; sample_group identical
// @outside entries with more than 2 items / 2 observations / 1 dimension per value (SmallVec spill paths)
#[kani::proof]
#[kani::unwind(6)]
pub fn box_entry_is_transparent() {
    let e = any_entry();
    let plain = record(&e);
    let g0 = groups(&e);
    kani::cover!(plain.n == 2 && plain.ev[1].kind == 4 && plain.ev[1].n_obs == 2 && plain.ev[1].n_dims == 1, "two-observation metric with a dimension");
    kani::cover!(plain.n == 2 && plain.ev[0].kind == 5, "validation error item");
    let boxed = BoxEntry::new(e);
    let wrapped = record(&boxed);
    same_logs(&plain, &wrapped);
    assert!(groups(&boxed) == g0, "sample group preserved by boxing");
    core::mem::forget(boxed);
}

// @check C15 quick timeout=1800 mem=14
// @encodes impl Entry for &T / Box<T> / Arc<T> / Option<T> (write and sample_group)
// @bounds same scripted entry; wrapper chosen symbolically among &e, Box, Arc, Some, None
// @oracle identical log and sample group (None: empty log, no group)
#[kani::proof]
#[kani::unwind(6)]
pub fn pointer_wrappers_are_transparent() {
    let e = any_entry();
    let plain = record(&e);
    let g0 = groups(&e);
    let which: u8 = kani::any();
    kani::assume(which < 5);
    kani::cover!(which == 3 && plain.n == 2, "Some(entry) with two items");
    match which {
        0 => {
            let r = &&e;
            same_logs(&plain, &record(r));
            assert!(groups(r) == g0);
        }
        1 => {
            let b = Box::new(e);
            same_logs(&plain, &record(&b));
            assert!(groups(&b) == g0);
            core::mem::forget(b);
        }
        2 => {
            let a = Arc::new(e);
            same_logs(&plain, &record(&a));
            assert!(groups(&a) == g0);
            core::mem::forget(a);
        }
        3 => {
            let o = Some(e);
            same_logs(&plain, &record(&o));
            assert!(groups(&o) == g0);
        }
        _ => {
            let o: Option<Scripted> = None;
            assert!(record(&o).n == 0 && groups(&o).0 == 0, "an absent entry contributes nothing");
        }
    }
}

// @check C15 quick timeout=1800 mem=14
// @encodes entry::merged::{Merged, MergedRef}::{write, sample_group}, Entry::{merge, merge_by_ref}
// @bounds globals entry of <= 2 symbolic items merged with an entry of <= 2 symbolic items; by value or by reference
// @oracle log(merged) == log(globals) ++ log(entry): global fields first, then the entry's, nothing altered; sample groups chained in the same order
#[kani::proof]
#[kani::unwind(6)]
pub fn merged_globals_first() {
    let g = any_entry();
    let e = any_entry();
    let (lg, le) = (record(&g), record(&e));
    let (gg, ge) = (groups(&g), groups(&e));
    let by_ref: bool = kani::any();
    let lm;
    let gm;
    if by_ref {
        let m = g.merge_by_ref(&e);
        lm = record(&m);
        gm = groups(&m);
    } else {
        let m = g.merge(e);
        lm = record(&m);
        gm = groups(&m);
        core::mem::forget(m);
    }
    kani::cover!(lg.n == 2 && le.n == 2, "four items in total");
    assert!(lm.n == lg.n + le.n, "every item of both entries, once");
    let i: usize = kani::any();
    kani::assume(i < lm.n);
    if i < lg.n {
        assert!(lm.ev[i] == lg.ev[i], "global fields come first, unaltered");
    } else {
        assert!(lm.ev[i] == le.ev[i - lg.n], "the entry's own fields follow, unaltered");
    }
    assert!(gm.0 == gg.0 + ge.0, "sample groups of both parts are kept");
    if ge.0 == 1 {
        assert!(gm.1 == ge.1 && gm.2 == ge.2);
    }
}

// @check C15 quick timeout=1800 mem=14
// @encodes value::dimensions::{WithDimensions as Entry (Wrapper EntryWriter + value writer), WithDimensions as Value}, MetricValue::with_dimension
// @bounds scripted entry of <= 2 items wrapped in WithDimensions<_, 1> carrying ("c","a")
// @oracle same items in the same order; every metric gets the extra pair appended AFTER its existing dimensions, strings / timestamps / configs / errors untouched; observations, unit, flags unchanged; sample group preserved
#[kani::proof]
#[kani::unwind(6)]
pub fn with_dimensions_appends_after_existing() {
    let e = any_entry();
    let plain = record(&e);
    let g0 = groups(&e);
    let w: WithDimensions<Scripted, 1> = WithDimensions::new_with_dimensions(e, [("c", "a")]);
    let wrapped = record(&w);
    let gw = groups(&w);
    kani::cover!(plain.n == 2 && plain.ev[0].kind == 4 && plain.ev[0].n_dims == 1, "metric that already has a dimension");
    assert!(wrapped.n == plain.n);
    let i: usize = kani::any();
    kani::assume(i < plain.n);
    let (p, q) = (plain.ev[i], wrapped.ev[i]);
    if p.kind == 4 {
        assert!(q.kind == 4 && q.name == p.name && q.n_obs == p.n_obs && q.obs_kind[0] == p.obs_kind[0] && q.obs_kind[1] == p.obs_kind[1] && q.obs_bits[0] == p.obs_bits[0] && q.obs_bits[1] == p.obs_bits[1] && q.obs_occ[0] == p.obs_occ[0] && q.obs_occ[1] == p.obs_occ[1] && q.unit == p.unit && q.flags == p.flags, "metric payload untouched");
        assert!(q.n_dims == p.n_dims + 1, "exactly one dimension added");
        if p.n_dims == 1 {
            assert!(q.dims[0].0 == p.dims[0].0 && q.dims[0].1 == p.dims[0].1, "existing dimensions stay first");
        }
        assert!(q.dims[p.n_dims as usize].0 == b'c' && q.dims[p.n_dims as usize].1 == b'a', "the extra dimension is appended after them");
    } else {
        assert!(q == p, "non-metric items are untouched");
    }
    assert!(gw == g0, "sample group preserved by attaching dimensions");
    core::mem::forget(w);
}

// @check C15 quick timeout=1800 mem=14
// @encodes value::force::{ForceFlag as Entry (ForceFlagEntryWriter), ForceFlag as Value (Wrapper)}, MetricFlags::try_merge
// @bounds scripted entry of <= 2 items wrapped in ForceFlag<_, FlagCtor>
// @oracle same items in the same order; metrics carry the forced flag, everything else identical; sample group preserved
#[kani::proof]
#[kani::unwind(6)]
pub fn force_flag_only_merges_flags() {
    let e = any_entry();
    let plain = record(&e);
    let g0 = groups(&e);
    let w: ForceFlag<Scripted, FlagCtor> = ForceFlag::from(e);
    let wrapped = record(&w);
    let gw = groups(&w);
    kani::cover!(plain.n == 2 && plain.ev[1].kind == 4, "a metric item");
    assert!(wrapped.n == plain.n);
    let i: usize = kani::any();
    kani::assume(i < plain.n);
    let (p, mut q) = (plain.ev[i], wrapped.ev[i]);
    if p.kind == 4 {
        assert!(q.flags && !p.flags, "flag merged into the metric");
        q.flags = false;
    }
    assert!(q == p, "everything but the flags is untouched");
    assert!(gw == g0, "sample group preserved by forcing flags");
    core::mem::forget(w);
}
