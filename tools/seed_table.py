#!/usr/bin/env python3
"""Prints the markdown table of DESIGN.md section 6 from seeded/*/meta.json and seeded/results.jsonl."""
import json, glob, os
os.chdir(os.path.join(os.path.dirname(os.path.abspath(__file__)), '..'))
res = {}
if os.path.exists('seeded/results.jsonl'):
    for l in open('seeded/results.jsonl'):
        try:
            r = json.loads(l)
        except Exception:
            continue
        res[(r['seed'], r['check'])] = r
print('| seed | what it breaks (needs to manifest) | check run | verdict | first failing harness |')
print('|---|---|---|---|---|')
for d in sorted(glob.glob('seeded/*/')):
    name = os.path.basename(d.rstrip('/'))
    meta = {}
    if os.path.exists(d + 'meta.json'):
        meta = json.load(open(d + 'meta.json'))
    what = (meta.get('breaks') or meta.get('what') or '').replace('|', '/').replace('\n', ' ')[:160]
    need = (meta.get('needs_to_manifest') or '').replace('|', '/').replace('\n', ' ')[:140]
    rows = [r for (s, c), r in res.items() if s == name]
    if not rows:
        print(f'| {name} | {what} ({need}) | - | not run | |')
    for r in rows:
        verdict = {0: 'MISSED (check passes)', 1: 'CAUGHT (VIOLATION, reproduced natively)', 2: 'inconclusive'}.get(r['rc'], str(r['rc']))
        print(f"| {name} | {what} ({need}) | {r['check']} quick, {r['wall_s']} s | {verdict} | {r.get('first_failed','')[:120].replace('|','/')} |")
