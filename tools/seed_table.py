#!/usr/bin/env python3
"""Prints the markdown table of DESIGN.md section 6 from seeded/*/meta.json and seeded/results.jsonl.
With --finalize: rewrites results.jsonl keeping the last valid run per (seed, check) and records the
outcome in each seeded/<id>/meta.json under "evaluated"."""
import json, glob, os, sys
os.chdir(os.path.join(os.path.dirname(os.path.abspath(__file__)), '..'))
res = {}
if os.path.exists('seeded/results.jsonl'):
    for l in open('seeded/results.jsonl'):
        try:
            r = json.loads(l)
        except Exception:
            continue
        if r.get('rc') not in (0, 1, 2):
            continue  # aborted run
        res[(r['seed'], r['check'], r.get('tier', 'quick'))] = r
VERDICT = {0: 'MISSED (check passes)', 1: 'CAUGHT (VIOLATION, reproduced natively)', 2: 'inconclusive (exit 2)'}
if '--finalize' in sys.argv:
    with open('seeded/results.jsonl', 'w') as f:
        for k in sorted(res):
            f.write(json.dumps(res[k]) + '\n')
print('| seed | what it breaks | check run | verdict | first failing assertion |')
print('|---|---|---|---|---|')
for d in sorted(glob.glob('seeded/*/')):
    name = os.path.basename(d.rstrip('/'))
    meta = {}
    if os.path.exists(d + 'meta.json'):
        meta = json.load(open(d + 'meta.json'))
    what = (meta.get('breaks') or meta.get('what') or '').replace('|', '/').replace('\n', ' ')
    what = what[:230] + ('…' if len(what) > 230 else '')
    rows = [r for (s, c, t), r in sorted(res.items()) if s == name]
    if '--finalize' in sys.argv and meta:
        meta['evaluated'] = [{'check': r['check'], 'tier': r.get('tier', 'quick'), 'exit': r['rc'], 'verdict': VERDICT[r['rc']],
                              'violations': r.get('violations'), 'wall_s': r.get('wall_s'),
                              'first_failed': r.get('first_failed', '').strip(),
                              'log': f"seeded/{name}/detect_{r['check']}.log"} for r in rows]
        json.dump(meta, open(d + 'meta.json', 'w'), indent=1)
    if not rows:
        print(f'| {name} | {what} | - | not run | |')
    for r in rows:
        ff = r.get('first_failed', '').replace('FAILED', '').strip()[:150].replace('|', '/')
        print(f"| {name} | {what} | {r['check']} {r.get('tier', 'quick')}, {r['wall_s']} s | {VERDICT[r['rc']]} | {ff} |")
