#!/usr/bin/env python3
"""Regenerates the seed table inside DESIGN.md (between the SEED-TABLE markers) from seeded/results.jsonl."""
import subprocess, os, re
root = os.path.join(os.path.dirname(os.path.abspath(__file__)), '..')
t = subprocess.run(['python3', os.path.join(root, 'tools', 'seed_table.py'), '--finalize'], stdout=subprocess.PIPE, text=True).stdout
p = os.path.join(root, 'DESIGN.md')
s = open(p).read()
s = re.sub(r'<!-- SEED-TABLE-BEGIN -->.*<!-- SEED-TABLE-END -->', lambda m: '<!-- SEED-TABLE-BEGIN -->\n' + t + '<!-- SEED-TABLE-END -->', s, flags=re.S)
open(p, 'w').write(s)
