#!/bin/sh
# usage: tools/run_all.sh [quick|thorough] [ids...]   - runs the registered checks one after the other, with evidence
cd /verif
tier=${1:-quick}; shift 2>/dev/null
ids=${*:-$(python3 -c "import json;print(' '.join(c['property_id'] for c in json.load(open('MANIFEST.json'))['checks']))")}
mkdir -p .cache/logs
for p in $ids; do
  t0=$(date +%s)
  ./check $p --tier $tier > .cache/logs/$p-$tier.log 2>&1; rc=$?
  t1=$(date +%s)
  echo "$p tier=$tier rc=$rc wall=$((t1-t0))s  $(grep -c '^  ok' .cache/logs/$p-$tier.log) ok, $(grep -c 'INCONCLUSIVE ' .cache/logs/$p-$tier.log) inconclusive, $(grep -c '^VIOLATION' .cache/logs/$p-$tier.log) violations" | tee -a .cache/logs/summary-$tier.txt
done
