#!/bin/sh
# stops every running check (driver processes, cargo-kani, kani-driver, cbmc); optional arg: crate name to limit cbmc kills
for p in $(pgrep -x sh; pgrep -x bash); do
  if tr '\0' ' ' < /proc/$p/cmdline 2>/dev/null | grep -q "/tmp/run[a-z]*\.sh"; then kill $p 2>/dev/null; fi
done
for p in $(pgrep -x python3); do
  if tr '\0' ' ' < /proc/$p/cmdline 2>/dev/null | grep -q "/verif/check\|\./check"; then kill $p 2>/dev/null; fi
done
for n in cargo-kani kani-driver cbmc; do pgrep -x $n | xargs -r kill 2>/dev/null; done
sleep 1
for n in cargo-kani kani-driver cbmc; do pgrep -x $n | xargs -r kill -9 2>/dev/null; done
echo "remaining cbmc: $(pgrep -x cbmc | wc -l)"
