#!/bin/sh
# Offline setup: nothing to install; warm the Kani build caches of the harness crates so that the first
# check does not pay for compiling the dependency graph. Safe to skip - every check rebuilds what it needs.
set -u
cd "$(dirname "$0")"
export CARGO_NET_OFFLINE=true
mkdir -p .cache/target evidence replays
for c in harness/*/; do
  [ -f "$c/Cargo.toml" ] || continue
  n=$(basename "$c")
  [ -f "$c/Cargo.lock" ] || cp /repo/Cargo.lock "$c/Cargo.lock"
  (cd "$c" && cargo kani -Z unstable-options -Z stubbing --only-codegen --target-dir "$PWD/../../.cache/target/$n" >/dev/null 2>&1) || echo "warm-up of $n failed (checks will report details)"
done
# the two native tests the driver runs for recorded defects in code the solver cannot execute (C05 guard, C08 finding)
for pair in hemf:known_c08_dimension_key hwriter:regress_c05_forgotten_handle; do
  c=${pair%%:*}; t=${pair##*:}
  (cd "harness/$c" && cargo test --offline --no-run --test "$t" --target-dir "$PWD/../../.cache/target/$c-native" >/dev/null 2>&1) || echo "warm-up of native test $t failed (the check reports it as 'not run')"
done
exit 0
