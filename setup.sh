#!/bin/sh
# Offline setup: nothing to install; warm the Kani build caches of the harness crates so that the first
# check does not pay for compiling the dependency graph. Safe to skip - every check rebuilds what it needs.
set -u
cd "$(dirname "$0")"
export CARGO_NET_OFFLINE=true
mkdir -p .cache/target evidence replays
# one cheap harness per crate is enough to compile and cache the dependency graph (code generation for ALL harnesses
# of hemf - more than 500 - takes a quarter of an hour and is not needed: every check generates what it selects)
warm() { # crate harness
  c=harness/$1
  [ -f "$c/Cargo.lock" ] || cp /repo/Cargo.lock "$c/Cargo.lock"
  (cd "$c" && cargo kani -Z unstable-options -Z stubbing --only-codegen --harness "$2" --exact --target-dir "$PWD/../../.cache/target/$1" >/dev/null 2>&1) || echo "warm-up of $1 failed (checks will report details)"
}
warm hagg c11::midpoint_within_relative_error
warm hcore c19::duration_reports_milliseconds
warm hemf c02::clamp_to_finite_all_f64
warm hmetrique c18::timer_first_stop_wins
warm hwriter c12::fixed_fraction_emits_iff_draw_at_most_rate
# the two native tests the driver runs for recorded defects in code the solver cannot execute (C05 guard, C08 finding)
for pair in hemf:known_c08_dimension_key hwriter:regress_c05_forgotten_handle; do
  c=${pair%%:*}; t=${pair##*:}
  (cd "harness/$c" && cargo test --offline --no-run --test "$t" --target-dir "$PWD/../../.cache/target/$c-native" >/dev/null 2>&1) || echo "warm-up of native test $t failed (the check reports it as 'not run')"
done
exit 0
