// Demonstration for the C08 defect: `Emf::all_validations` must validate in EVERY build profile. On the unfixed
// tree it delegates to `Emf::builder`, whose default is "skip everything" when debug assertions are off, so in
// `--release` an entry that writes the same name twice is accepted and rendered with a duplicate JSON member.
// Copy into metrique-writer-format-emf/tests/ and run BOTH `cargo test --test c08_all_validations_release`
// and `cargo test --release --test c08_all_validations_release`.
use metrique_writer::{Entry, EntryWriter, format::Format};
use metrique_writer_format_emf::Emf;
use std::time::SystemTime;

struct Twice;
impl Entry for Twice {
    fn write<'a>(&'a self, w: &mut impl EntryWriter<'a>) {
        w.timestamp(SystemTime::UNIX_EPOCH);
        w.value("A", &1u64);
        w.value("A", &2u64);
    }
}

#[test]
fn all_validations_rejects_duplicate_names_in_every_profile() {
    let mut emf = Emf::all_validations("Ns".into(), vec![vec![]]);
    let mut out = Vec::new();
    let r = emf.format(&Twice, &mut out);
    assert!(r.is_err(), "duplicate name accepted (debug_assertions = {}): {}", cfg!(debug_assertions), String::from_utf8_lossy(&out));
    assert!(out.is_empty(), "a rejected entry writes nothing");
}
