// Demonstration for the C05 defect: after `BackgroundQueueJoinHandle::forget()`, dropping the last queue handle
// must make the writer thread drain, flush, CLOSE (drop) the stream and exit. On the unfixed tree `Receiver::run`
// keeps an extra `Arc` clone of the queue internals alive, so "no appenders left" is never detected and the stream
// is never dropped. Copy into metrique-writer/tests/ and `cargo test --test c05_forgotten_handle_never_exits`.
use metrique_writer::sink::BackgroundQueueBuilder;
use metrique_writer::{Entry, EntryIoStream, EntrySink, EntryWriter, IoStreamError};
use std::sync::Arc;
use std::sync::atomic::{AtomicBool, AtomicUsize, Ordering};
use std::time::{Duration, Instant};

struct E(u64);
impl Entry for E {
    fn write<'a>(&'a self, w: &mut impl EntryWriter<'a>) {
        w.value("v", &self.0);
    }
}

struct Stream {
    seen: Arc<AtomicUsize>,
    closed: Arc<AtomicBool>,
}
impl EntryIoStream for Stream {
    fn next(&mut self, _entry: &impl Entry) -> Result<(), IoStreamError> {
        self.seen.fetch_add(1, Ordering::SeqCst);
        Ok(())
    }
    fn flush(&mut self) -> std::io::Result<()> {
        Ok(())
    }
}
impl Drop for Stream {
    fn drop(&mut self) {
        self.closed.store(true, Ordering::SeqCst);
    }
}

#[test]
fn forgotten_handle_thread_exits_after_last_queue_dropped() {
    let seen = Arc::new(AtomicUsize::new(0));
    let closed = Arc::new(AtomicBool::new(false));
    let (queue, handle) = BackgroundQueueBuilder::new()
        .flush_interval(Duration::from_millis(20))
        .build::<E>(Stream { seen: seen.clone(), closed: closed.clone() });
    handle.forget();
    queue.append(E(1));
    queue.append(E(2));
    drop(queue); // last queue handle gone
    let deadline = Instant::now() + Duration::from_secs(5); // 250 flush intervals
    while Instant::now() < deadline && !closed.load(Ordering::SeqCst) {
        std::thread::sleep(Duration::from_millis(10));
    }
    assert_eq!(seen.load(Ordering::SeqCst), 2, "entries appended before the drop are written");
    assert!(closed.load(Ordering::SeqCst), "stream must be closed and the thread must exit once no queue handle is left");
}
