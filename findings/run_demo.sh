#!/bin/sh
# usage: run_demo.sh <commit-ish> <crate-dir> <demo.rs> [cargo test args]   - runs a demonstration test against a scratch worktree
set -e
rev=$1; crate=$2; demo=$3; shift 3
wt=$(mktemp -d /tmp/demo_wt.XXXXXX)
git -C /repo worktree add --detach "$wt" "$rev" >/dev/null 2>&1
cp "$demo" "$wt/$crate/tests/$(basename "$demo")"
name=$(basename "$demo" .rs)
(cd "$wt" && CARGO_TARGET_DIR=/tmp/demo_target cargo test --offline -p "$(basename "$crate")" --test "$name" "$@" 2>&1 | tail -40) || true
git -C /repo worktree remove --force "$wt"
