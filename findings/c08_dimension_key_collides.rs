// Demonstration of a C08 defect that the solver-based checks cannot reach (split records are outside the
// executable part of the formatter, DESIGN.md section 5): with every validation enabled, an entry in split mode
// whose per-metric dimension key equals the name of one of its string properties is ACCEPTED, and the split
// record carries two members with that name ("D":"v" from the dimension, "D":"s" from the property), although
// the property promises that no emitted record ever has two members with the same name.
// Copy into metrique-writer-format-emf/tests/ and run `cargo test --test c08_dimension_key_collides`
// (or: findings/run_demo.sh HEAD metrique-writer-format-emf findings/c08_dimension_key_collides.rs). It FAILS on the
// pinned tree and on the current tree: the defect is recorded, not repaired (a repair has to track dimension keys
// per split record in the validation map, including the interplay with declared dimensions - not a minimal patch).
use metrique_writer::{Entry, EntryWriter, MetricFlags, Observation, Unit, Value, ValueWriter, format::Format};
use metrique_writer_format_emf::{AllowSplitEntries, Emf};
use std::time::SystemTime;

struct M;
impl Value for M {
    fn write(&self, w: impl ValueWriter) {
        w.metric([Observation::Unsigned(7)], Unit::None, [("D", "v")], MetricFlags::empty())
    }
}
struct E;
impl Entry for E {
    fn write<'a>(&'a self, w: &mut impl EntryWriter<'a>) {
        w.timestamp(SystemTime::UNIX_EPOCH);
        w.config(&const { AllowSplitEntries::new() });
        w.value("D", "s");
        w.value("A", &M);
    }
}

#[test]
fn dimension_key_equal_to_string_property() {
    let mut emf = Emf::all_validations("Ns".into(), vec![vec![]]);
    let mut out = Vec::new();
    let r = emf.format(&E, &mut out);
    let text = String::from_utf8_lossy(&out).to_string();
    println!("result {:?}\n{}", r.is_ok(), text);
    if r.is_ok() {
        for line in text.lines() {
            let dup = line.matches("\"D\":").count();
            assert!(dup <= 1, "record has {} members named D: {}", dup, line);
        }
    }
}
