// Demonstration for the C02 defect (fixed by the "fix:" commit recorded in /verif/known_findings.txt):
// an observation list whose LAST observation is skipped (NaN) after one was written used to render
// `"Values":[1,],"Counts":[1,]` - not JSON. Copy into metrique-writer-format-emf/tests/ and `cargo test --test c02_trailing_nan`.
use metrique_writer::{Entry, EntryWriter, MetricFlags, Observation, Unit, Value, ValueWriter, format::Format};
use metrique_writer_format_emf::Emf;
use std::time::SystemTime;

struct Obs(Vec<Observation>);
impl Value for Obs {
    fn write(&self, writer: impl ValueWriter) {
        writer.metric(self.0.iter().copied(), Unit::None, [], MetricFlags::empty());
    }
}
struct E(Obs);
impl Entry for E {
    fn write<'a>(&'a self, w: &mut impl EntryWriter<'a>) {
        w.timestamp(SystemTime::UNIX_EPOCH);
        w.value("M", &self.0);
    }
}

fn render(obs: Vec<Observation>) -> String {
    let mut emf = Emf::all_validations("Ns".into(), vec![vec![]]);
    let mut out = Vec::new();
    emf.format(&E(Obs(obs)), &mut out).unwrap();
    String::from_utf8(out).unwrap()
}

#[test]
fn trailing_nan_observation_keeps_json_valid() {
    for obs in [
        vec![Observation::Unsigned(1), Observation::Floating(f64::NAN)],
        vec![Observation::Floating(f64::NAN), Observation::Unsigned(1), Observation::Floating(f64::NAN)],
        vec![Observation::Unsigned(1), Observation::Floating(f64::NAN), Observation::Unsigned(2)],
        vec![Observation::Unsigned(1), Observation::Repeated { total: f64::NAN, occurrences: 2 }],
    ] {
        let text = render(obs);
        let v: serde_json::Value = serde_json::from_str(text.trim_end()).unwrap_or_else(|e| panic!("not JSON: {e}: {text}"));
        let m = &v["M"];
        assert_eq!(m["Values"].as_array().unwrap().len(), m["Counts"].as_array().unwrap().len());
    }
}
