// Demonstration for the C15 defect: wrapping an entry with per-entry dimensions, forced flags or global dimensions
// must preserve its sample group. On the unfixed tree the `Entry` impls of `WithDimensions`, `ForceFlag` and
// `WithGlobalDimensions` do not forward `sample_group()`, so a wrapped entry falls into the default group of a
// congressional sampler. Copy into metrique-writer/tests/ and `cargo test --test c15_sample_group_lost`.
use metrique_writer::entry::WithGlobalDimensions;
use metrique_writer::value::{FlagConstructor, ForceFlag, MetricOptions, WithDimensions};
use metrique_writer::{Entry, EntryWriter, MetricFlags};
use std::borrow::Cow;

struct E;
impl Entry for E {
    fn write<'a>(&'a self, w: &mut impl EntryWriter<'a>) {
        w.value("v", &1u64);
    }
    fn sample_group(&self) -> impl Iterator<Item = (Cow<'static, str>, Cow<'static, str>)> {
        [(Cow::Borrowed("Operation"), Cow::Borrowed("Get"))].into_iter()
    }
}

#[derive(Debug)]
struct Opt;
impl MetricOptions for Opt {}
struct Ctor;
impl FlagConstructor for Ctor {
    fn construct() -> MetricFlags<'static> {
        MetricFlags::upcast(&Opt)
    }
}

fn groups(e: &impl Entry) -> Vec<(String, String)> {
    e.sample_group().map(|(a, b)| (a.into_owned(), b.into_owned())).collect()
}

#[test]
fn wrappers_preserve_sample_group() {
    let want = groups(&E);
    assert_eq!(want.len(), 1);
    let with_dims: WithDimensions<E, 1> = WithDimensions::new_with_dimensions(E, [("a", "b")]);
    assert_eq!(groups(&with_dims), want, "WithDimensions<Entry>");
    let forced: ForceFlag<E, Ctor> = ForceFlag::from(E);
    assert_eq!(groups(&forced), want, "ForceFlag<Entry>");
    let global: WithGlobalDimensions<E, 1> = WithGlobalDimensions::new_with_global_dimensions(E, [("g", "h")], Default::default());
    assert_eq!(groups(&global), want, "WithGlobalDimensions<Entry>");
}
