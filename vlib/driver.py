"""Driver library: discovers Kani harnesses annotated with `// @check`, runs them with
cargo-kani (CBMC back end) against /repo's working tree, interprets the solver verdicts,
replays counterexamples natively and writes /verif/evidence/<id>.json."""
import concurrent.futures as cf
import glob
import json
import os
import re
import resource
import shutil
import subprocess
import sys
import time

VERIF = os.path.dirname(os.path.dirname(os.path.abspath(__file__)))
REPO = os.environ.get("VERIF_REPO", "/repo")
HARNESS_ROOT = os.path.join(VERIF, "harness")
CACHE = os.path.join(VERIF, ".cache")
KNOWN = os.path.join(VERIF, "known_findings.txt")

ENV = dict(os.environ)
ENV.update({"CARGO_NET_OFFLINE": "true", "CARGO_TERM_COLOR": "never"})


def log(*a):
    print(*a, flush=True)


# ----------------------------------------------------------------------------- discovery
class Unit:
    """One annotated harness (or macro-generated family of harnesses)."""

    def __init__(self, crate, module, path, line):
        self.crate, self.module, self.path, self.line = crate, module, path, line
        self.props, self.tier, self.name, self.filter = [], "quick", None, None
        self.tiers = {}
        self.timeout, self.mem, self.role = 300, None, ""
        self.env = ""  # "K=V[,K2=V2]": harness must be compiled/run with these extra environment variables
        self.meta = {"encodes": [], "bounds": [], "stubs": [], "outside": [], "oracle": [], "probe": [], "probevals": []}

    @property
    def harness_filter(self):
        return self.filter or f"{self.module}::{self.name}"

    def matches(self, harness_id):
        if self.filter:
            return self.filter in harness_id
        return harness_id == f"{self.module}::{self.name}"


def discover():
    units = []
    for crate_dir in sorted(glob.glob(os.path.join(HARNESS_ROOT, "*"))):
        if not os.path.isfile(os.path.join(crate_dir, "Cargo.toml")):
            continue
        crate = os.path.basename(crate_dir)
        for path in sorted(glob.glob(os.path.join(crate_dir, "src", "**", "*.rs"), recursive=True)):
            rel = os.path.relpath(path, os.path.join(crate_dir, "src"))
            module = rel[:-3].replace(os.sep, "::")
            if module.endswith("::mod"):
                module = module[:-5]
            cur = None
            for i, raw in enumerate(open(path), 1):
                s = raw.strip()
                m = re.match(r"//\s*@check\s+(\S+)\s+(quick|thorough)(.*)$", s)
                if m:
                    cur = Unit(crate, module, path, i)
                    # "C02,C03:thorough quick" = quick tier for C02, thorough-only for C03
                    cur.tier = m.group(2)
                    cur.props, cur.tiers = [], {}
                    for tok in m.group(1).split(","):
                        pid, _, t = tok.partition(":")
                        cur.props.append(pid)
                        cur.tiers[pid] = t or cur.tier
                    for kv in m.group(3).split():
                        k, _, v = kv.partition("=")
                        if k == "filter":
                            cur.filter = v
                        elif k == "timeout":
                            cur.timeout = int(v)
                        elif k == "mem":
                            cur.mem = int(v)
                        elif k == "role":
                            cur.role = v
                        elif k == "env":
                            cur.env = v
                    continue
                if cur is None:
                    continue
                m = re.match(r"//\s*@(\w+)\s+(.*)$", s)
                if m and m.group(1) in cur.meta:
                    cur.meta[m.group(1)].append(m.group(2).strip())
                    continue
                if s.startswith("//") or s.startswith("#[") or s == "" or re.match(r"^\w+!\s*\{$", s):
                    continue
                m = re.match(r"(?:pub(?:\([a-z]+\))?\s+)?fn\s+(\w+)", s)
                if m:
                    cur.name = m.group(1)
                elif not cur.filter:
                    raise SystemExit(f"{path}:{i}: @check block not followed by fn or filter=")
                units.append(cur)
                cur = None
    return units


# ----------------------------------------------------------------------------- known findings
def load_known():
    """finding: property=C08 harness=<substr> check=<substr of failing assertion> :: <what fails>
    fixed: property=C02 <commit> <what failed>      (suppresses nothing)"""
    out = []
    if not os.path.exists(KNOWN):
        return out
    for raw in open(KNOWN):
        s = raw.strip()
        if s.startswith("fixed:"):
            # documentation only, except for an optional native regression guard (see regression_guards)
            m = re.search(r"property=(\S+).*?native_test=(\S+)", s)
            if m:
                out.append({"kind": "fixed", "property": m.group(1), "native_test": m.group(2),
                            "what": s[len("fixed:"):].strip()})
            continue
        if not s.startswith("finding:"):
            continue
        head, _, what = s[len("finding:"):].partition("::")
        d = {"kind": "finding", "what": what.strip()}
        for m in re.finditer(r'(\w+)=("([^"]*)"|\S+)', head):
            d[m.group(1)] = m.group(3) if m.group(3) is not None else m.group(2)
        out.append(d)
    return out


def known_match(known, prop, harness_id, desc):
    for k in known:
        if k.get("kind") != "finding" or k.get("property") != prop or not k.get("harness") or not k.get("check"):
            continue  # native_test findings (no solver-side detector) never match a harness failure
        if k.get("harness", "") in harness_id and k.get("check", "") in desc:
            return k
    return None


# ----------------------------------------------------------------------------- running kani
def _limit(mem_gb):
    def f():
        b = int(mem_gb * (1 << 30))
        resource.setrlimit(resource.RLIMIT_AS, (b, b))
        os.setsid()
    return f


def kani_cmd(filters, jobs, timeout, json_out, target_dir, extra=()):
    cmd = ["cargo", "kani", "-Z", "unstable-options", "-Z", "stubbing", "--output-format", "terse",
           "--target-dir", target_dir, "--export-json", json_out,
           "--harness-timeout", f"{timeout}s", "-j", str(jobs)]
    for f in filters:
        cmd += ["--harness", f]
    cmd += list(extra)
    return cmd


def run_crate(group, units, jobs, mem_gb, tag, only=None):
    """Run all harnesses of `units` (same crate, same extra environment, same memory class) in one cargo-kani invocation."""
    crate, envspec, heavy = group
    crate_dir = os.path.join(HARNESS_ROOT, crate)
    env = dict(ENV)
    envtag = ""
    if envspec:
        for kv in envspec.split(","):
            k, _, v = kv.partition("=")
            env[k] = v
        envtag = "-" + re.sub(r"[^A-Za-z0-9]+", "_", envspec)[-40:]
    target_dir = os.path.join(CACHE, "target", crate + envtag + os.environ.get("VERIF_TARGET_SUFFIX", ""))
    os.makedirs(target_dir, exist_ok=True)
    work = os.path.join(CACHE, "runs", tag)
    os.makedirs(work, exist_ok=True)
    cls = "-heavy" if heavy else ""
    json_out = os.path.join(work, f"{crate}{envtag}{cls}.json")
    logf = os.path.join(work, f"{crate}{envtag}{cls}.log")
    if os.path.exists(json_out):
        os.remove(json_out)
    # keep the lock file in step with /repo (path deps resolve against it)
    src_lock, dst_lock = os.path.join(REPO, "Cargo.lock"), os.path.join(crate_dir, "Cargo.lock")
    if os.path.exists(src_lock) and not os.path.exists(dst_lock):
        shutil.copy(src_lock, dst_lock)
    filters = sorted({u.harness_filter for u in units})
    timeout = max(u.timeout for u in units)
    mem_gb = max([mem_gb] + [u.mem for u in units if u.mem])
    if mem_gb >= 24:
        # memory-hungry harnesses: never start more CBMC processes than fit into RAM together
        total_gb = 56
        try:
            total_gb = max(16, int(open("/proc/meminfo").readline().split()[1]) // (1 << 20) - 6)
        except Exception:
            pass
        jobs = max(1, min(jobs, total_gb // mem_gb))
    cmd = kani_cmd(filters, jobs, timeout, json_out, target_dir)
    t0 = time.time()
    with open(logf, "w") as lf:
        lf.write("$ " + " ".join(cmd) + "\n")
        lf.flush()
        # wall cap: compile + all harnesses; generous, the per-harness cap is --harness-timeout
        wall_cap = 900 + timeout * (1 + len(filters) // max(1, jobs)) * 2
        try:
            p = subprocess.run(cmd, cwd=crate_dir, env=env, stdout=lf, stderr=subprocess.STDOUT,
                               preexec_fn=_limit(mem_gb), timeout=wall_cap)
            rc = p.returncode
        except subprocess.TimeoutExpired:
            rc = -9
    wall = time.time() - t0
    data = None
    if os.path.exists(json_out):
        try:
            data = json.load(open(json_out))
        except Exception as e:  # noqa
            data = None
    return {"crate": crate, "rc": rc, "wall": wall, "json": data, "log": logf,
            "cmd": ([envspec] if envspec else []) + cmd}


# ----------------------------------------------------------------------------- interpretation
def interpret(run, units):
    """-> list of per-harness result dicts."""
    res = []
    d = run["json"]
    if d is None:
        tail = ""
        try:
            tail = "".join(open(run["log"]).readlines()[-40:])
        except Exception:
            pass
        return [{"harness": f"<{run['crate']}>", "verdict": "error", "why": "cargo kani produced no result file "
                 f"(rc={run['rc']}); log tail:\n{tail}", "unit": None}]
    errs = {e["harness_id"]: e for e in d.get("error_details", [])}
    stats = {c["harness_id"]: (c.get("cbmc_stats") or {}) for c in d.get("cbmc", [])}
    seen_units = set()
    for r in d["verification_results"]["results"]:
        hid = r["harness_id"]
        unit = next((u for u in units if u.matches(hid)), None)
        if unit is None:
            continue
        seen_units.add(id(unit))
        checks = r.get("checks", [])
        fails = [c for c in checks if c["status"].lower() == "failure"]
        undet = [c for c in checks if c["status"].lower() in ("undetermined", "error")]
        covers = [c for c in checks if c.get("category") == "cover"]
        cov_sat = [c for c in covers if c["status"].lower() == "satisfied"]
        cov_unsat = [c for c in covers if c["status"].lower() != "satisfied"]
        st = stats.get(hid, {})
        e = errs.get(hid, {})
        out = {"harness": hid, "unit": unit, "duration_s": r.get("duration_ms", 0) / 1000.0,
               "n_checks": len([c for c in checks if c.get("category") != "cover"]),
               "covers": [c["description"] for c in cov_sat],
               "covers_unsat": [c["description"] for c in cov_unsat],
               "solver_s": st.get("runtime_solver_s"), "symex_s": st.get("runtime_symex_s"),
               "vccs": st.get("vccs_generated"), "program_size": st.get("size_program_expression"),
               "fails": fails}
        if r["status"] == "Success" and not fails and not undet:
            if cov_unsat:
                out["verdict"] = "vacuous"
                out["why"] = "cover witness not satisfied: " + "; ".join(out["covers_unsat"])
            else:
                out["verdict"] = "ok"
        elif fails:
            unwind = [c for c in fails if c.get("category") == "unwind" or "unwinding assertion" in c["description"]]
            if unwind and len(unwind) == len(fails):
                out["verdict"] = "error"
                out["why"] = "unwinding assertion failed (bound too small): " + unwind[0]["description"]
            else:
                out["verdict"] = "fail"
        else:
            out["verdict"] = "error"
            st_ = e.get("exit_status")
            hint = ""
            if st_ in ("exit_code_6", "out_of_memory") or any(c["status"].lower() == "error" for c in checks):
                hint = " (CBMC ran out of memory under the per-process limit, or aborted)"
            elif st_ == "timeout":
                hint = " (harness timeout)"
            out["why"] = f"no verdict: exit_status={st_} error_type={e.get('error_type')}{hint}"
        res.append(out)
    for u in units:
        if id(u) not in seen_units:
            res.append({"harness": u.harness_filter, "unit": u, "verdict": "error",
                        "why": "harness did not run (not found / compile error); see " + run["log"]})
    return res


# ----------------------------------------------------------------------------- replay
KANI_HOME = os.path.expanduser("~/.kani/kani-0.68.0")


def native_test_cmd(release, test_name, extra_cfg=("verif_native", "verif_playback")):
    """The command `cargo kani playback` runs, reproduced here so that a --release replay is possible."""
    flags = ["-Zunstable-options", "-Ztrim-diagnostic-paths=no", "-Zhuman_readable_cgu_names",
             "-Zalways-encode-mir", "--cfg=kani", "-Zcrate-attr=feature(register_tool)",
             "-Zcrate-attr=register_tool(kanitool)", "--sysroot", f"{KANI_HOME}/playback",
             "-L", f"{KANI_HOME}/playback/lib", "--extern", "force:kani", "--extern",
             f"noprelude,nounused:std={KANI_HOME}/playback/lib/libstd.rlib", "-Awarnings"]
    if not release:
        flags.insert(0, "-Coverflow-checks=on")
    for c in extra_cfg:
        flags.append(f"--cfg={c}")
    env = dict(ENV)
    env["CARGO_ENCODED_RUSTFLAGS"] = "\x1f".join(flags)
    env["RUSTC"] = f"{KANI_HOME}/bin/kani-compiler"
    env["CARGO_TERM_PROGRESS_WHEN"] = "never"
    cmd = [f"{KANI_HOME}/toolchain/bin/cargo", "test"] + (["--release"] if release else []) + [
        "--lib", "--target", "x86_64-unknown-linux-gnu", "-Zhost-config", "-Ztarget-applies-to-host",
        '--config=host.rustflags=["--cfg=kani_host"]', "--", test_name, "--exact", "--nocapture", "--test-threads=1"]
    return cmd, env


KNOWN_REPORTED = []


GUARDS = []


def native_finding(spec, word="FINDING", outcomes=("REPRODUCED", "ABSENT")):
    """A listed finding that has no solver-side detector (code CBMC cannot execute) carries `native_test=<crate>:<test>`:
    an integration test of the harness crate, built with the ordinary toolchain against /repo's working tree, that
    prints FINDING-REPRODUCED / FINDING-ABSENT and never fails. It only decides whether the KNOWN-FINDING line is
    printed; it never changes the exit status."""
    crate, _, test = spec.partition(":")
    tdir = os.path.join(CACHE, "target", crate + "-native")
    try:
        p = subprocess.run(["cargo", "test", "--offline", "--test", test, "--target-dir", tdir, "--", "--nocapture"],
                           cwd=os.path.join(HARNESS_ROOT, crate), env=ENV, stdout=subprocess.PIPE,
                           stderr=subprocess.STDOUT, text=True, timeout=1200)
    except Exception as e:  # noqa
        return "not run", str(e)
    m = re.search(word + r"-(" + "|".join(outcomes) + r")[^\n]*", p.stdout)
    if not m:
        return "not run", p.stdout[-300:]
    return m.group(1), m.group(0)[:300]


def concrete_playback(unit, harness_id, prop, solver_fails=()):
    """Ask Kani for the concrete values of the failing checks; write the replay file; run the
    counterexample natively (dev and release profile, stubs inactive => real code).
    Returns (replay_path, reproduced: True/False/None, record)."""
    crate_dir = os.path.join(HARNESS_ROOT, unit.crate)
    rdir = os.path.join(VERIF, "replays", prop)
    os.makedirs(rdir, exist_ok=True)
    safe = harness_id.replace("::", "__")
    replay_path = os.path.join(rdir, safe + ".json")
    tdir = os.path.join(CACHE, "target", unit.crate + "-playback")
    cmd = ["cargo", "kani", "-Z", "unstable-options", "-Z", "stubbing", "-Z", "concrete-playback",
           "--concrete-playback=print", "--target-dir", tdir, "--harness-timeout", f"{unit.timeout * 2}s",
           "--harness", harness_id, "--exact"]
    if (unit.meta.get("probe") or unit.meta.get("probevals")) and solver_fails:
        # see below: harnesses that declare probe inputs are replayed with those; Kani's value extraction is not attempted
        out1 = "(value extraction not attempted: the harness declares probe inputs)"
    else:
        p = subprocess.run(cmd, cwd=crate_dir, env=ENV, stdout=subprocess.PIPE, stderr=subprocess.STDOUT, text=True,
                           preexec_fn=_limit(48))
        out1 = p.stdout
    tests = []
    for m in re.finditer(r"/// Check for `(\w+)`: (.*?)\n\s*\n?#\[test\]\nfn (kani_concrete_playback_\w+)\(\) \{\s*"
                         r"let concrete_vals: Vec<Vec<u8>> = vec!\[(.*?)\n    \];", out1, re.S):
        tests.append({"category": m.group(1), "check": m.group(2).strip(), "test": m.group(3), "vals": m.group(4)})
    fail_tests = [t for t in tests if t["category"] != "cover"]
    # what failed in THIS run (the current tree): nothing => nothing to reproduce
    failed_descs = [d.strip().strip('"').strip() for d in re.findall(r"^Failed Checks: (.*)$", out1, re.M)]
    failed_descs = [d for d in failed_descs if d]
    if not failed_descs:
        fail_tests = []
    elif not fail_tests:
        # Kani emits ONE test per distinct set of concrete values and labels it with the first check it serves: when
        # the failing assertion's trace coincides with a cover witness's trace, only "cover"-labelled tests exist.
        # They are replayed instead, but a cover trace may stop before later kani::any() calls (the native run then
        # panics for lack of values): such a run only counts if the panic message is one of the failed checks.
        fail_tests = [dict(t, need_message=True) for t in tests]
    if not tests and (unit.meta.get("probe") or unit.meta.get("probevals")) and solver_fails:
        # For the whole-formatter harnesses Kani's value extraction (CBMC without slicing, with traces) needs more than
        # 48 GB. Such a harness declares the byte sizes of its kani::any() calls (`// @probe 8,8,8`) and a few fixed
        # probe inputs are run natively instead; a probe only counts if the native panic message is one of the
        # assertions that failed in the solver run, so what is reported is a concrete input failing on the real code
        # with the assertion the solver refuted. No probe failing => inconclusive (exit 2), as before.
        sizes = [int(x) for x in ",".join(unit.meta["probe"]).replace(" ", "").split(",") if x]
        failed_descs = [d.strip().strip('"').strip() for d in solver_fails]
        failed_descs = [d for d in failed_descs if len(d) >= 12 and not d.startswith(("free argument", "rust_dealloc"))]
        for name, byte in ((("zeros", 0), ("ones", 1), ("sevens", 7)) if sizes else ()):
            vals = "".join("\n        vec![" + ", ".join([str(byte)] + ["0"] * (n - 1)) + "]," for n in sizes)
            tests.append({"category": "probe", "check": f"probe input '{name}' (value extraction failed)", "test": "probe_" + name,
                          "vals": vals, "need_message": True})
        # explicit probe schedules: `// @probevals <name> <size>:<value>,<size>:<value>,...` (little-endian)
        for line in unit.meta.get("probevals", []):
            name, _, spec = line.partition(" ")
            vals = ""
            for item in spec.replace(" ", "").split(","):
                if not item:
                    continue
                n, _, v = item.partition(":")
                b = int(v).to_bytes(int(n), "little")
                vals += "\n        vec![" + ", ".join(str(x) for x in b) + "],"
            tests.append({"category": "probe", "check": f"probe schedule '{name}'", "test": "probe_" + name,
                          "vals": vals, "need_message": True})
        fail_tests = list(tests) if failed_descs else []
    record = {"property": prop, "harness": harness_id, "crate": unit.crate, "source": unit.path,
              "solver_fails": list(solver_fails), "tests": tests, "kani_output_tail": out1[-3000:], "native": []}
    reproduced = None
    if fail_tests:
        reproduced = False
        work = os.path.join(CACHE, "playback", f"{unit.crate}-{safe}")
        if os.path.exists(work):
            shutil.rmtree(work)
        shutil.copytree(crate_dir, work, ignore=shutil.ignore_patterns("target"))
        gen = ["// generated by /verif/check: native replay of solver counterexamples\n"]
        for i, t in enumerate(fail_tests):
            t["native_test"] = f"replay_{i}"
            gen.append(f"#[test]\nfn replay_{i}() {{\n    // {t['check']}\n    let concrete_vals: Vec<Vec<u8>> = vec![{t['vals']}\n    ];\n"
                       f"    kani::concrete_playback_run(concrete_vals, crate::{harness_id});\n}}\n")
        open(os.path.join(work, "src", "playback_gen.rs"), "w").write("".join(gen))
        record["playback_source"] = "".join(gen)
        for release in (False, True):
            for t in fail_tests:
                cmd2, env = native_test_cmd(release, "playback_gen::" + t["native_test"])
                env["CARGO_TARGET_DIR"] = os.path.join(CACHE, "target", unit.crate + "-native")
                q = subprocess.run(cmd2, cwd=work, env=env, stdout=subprocess.PIPE, stderr=subprocess.STDOUT, text=True)
                ran = "running 1 test" in q.stdout
                failed = ran and (("test result: FAILED" in q.stdout) or ("panicked at" in q.stdout) or q.returncode != 0)
                if failed and t.get("need_message") and not any(d in q.stdout for d in failed_descs):
                    failed = False
                record["native"].append({"profile": "release" if release else "dev", "test": t["native_test"],
                                         "check": t["check"], "ran": ran, "failed": failed, "tail": q.stdout[-1500:]})
                if ran and failed:
                    reproduced = True
        shutil.rmtree(work, ignore_errors=True)
    json.dump(record, open(replay_path, "w"), indent=1)
    return replay_path, reproduced, record


def replay_file(path):
    if path.endswith(".rs"):
        # a native regression guard (harness/<crate>/tests/<test>.rs): run it against the current tree
        crate = os.path.basename(os.path.dirname(os.path.dirname(os.path.abspath(path))))
        test = os.path.basename(path)[:-3]
        prop = next((k["property"] for k in load_known() if k.get("native_test") == f"{crate}:{test}"), "?")
        st, detail = native_finding(f"{crate}:{test}", "(?:REGRESSION|FINDING)", ("PRESENT", "REPRODUCED", "ABSENT"))
        log(f"native replay {crate}:{test}: {st} {detail}")
        if st in ("PRESENT", "REPRODUCED"):
            log(f"VIOLATION property={prop} replay={path}")
            return 1
        return 0 if st == "ABSENT" else 2
    rec = json.load(open(path))
    log(f"replay of {rec['harness']} (property {rec['property']}), crate {rec['crate']}")
    units = [u for u in discover() if u.crate == rec["crate"] and u.matches(rec["harness"])]
    if not units:
        log("harness no longer exists")
        return 2
    rp, reproduced, record = concrete_playback(units[0], rec["harness"], rec["property"], rec.get("solver_fails") or ())
    for n in record["native"]:
        log(f"  native {n['profile']}: ran={n['ran']} failed={n['failed']}")
    if reproduced:
        log(f"VIOLATION property={rec['property']} replay={rp}")
        return 1
    log("no counterexample reproduced on the current tree")
    return 0


# ----------------------------------------------------------------------------- main
def main(argv):
    import argparse
    ap = argparse.ArgumentParser()
    ap.add_argument("prop", nargs="?")
    ap.add_argument("--tier", default=os.environ.get("VERIF_TIER", "quick"), choices=["quick", "thorough"])
    ap.add_argument("--jobs", type=int, default=0)
    ap.add_argument("--only", default=None, help="only harnesses whose filter contains this substring")
    ap.add_argument("--replay", default=None)
    ap.add_argument("--list", action="store_true")
    ap.add_argument("--no-evidence", action="store_true")
    a = ap.parse_args(argv)
    seed = int(os.environ.get("VERIF_SEED", "0") or 0)

    if a.replay:
        return replay_file(a.replay)
    units = discover()
    if a.list:
        for u in units:
            log(f"{','.join(p + ':' + u.tiers.get(p, u.tier)[0] for p in u.props):16} {u.crate:10} {u.harness_filter:50} t={u.timeout} mem={u.mem or 14}")
        return 0
    prop = a.prop
    sel = [u for u in units if prop in u.props and (u.tiers.get(prop, u.tier) == "quick" or a.tier == "thorough")]
    if a.only:
        keep = []
        for u in sel:
            if a.only in u.harness_filter:
                keep.append(u)
            elif u.filter and u.filter in a.only:
                u.filter = a.only  # narrow a macro-generated family to one member
                keep.append(u)
        sel = keep
    if not sel:
        log(f"no harness registered for {prop}")
        return 2
    ncpu = os.cpu_count() or 4
    # 8 in both tiers: with 12-14 parallel harnesses kani-driver itself (which parses CBMC's output in-process, under
    # the same RLIMIT_AS as its children) failed with "memory allocation failed" on the 432-harness list family
    jobs = a.jobs or min(8, ncpu)
    mem_gb = 14
    tag = f"{prop}-{a.tier}" + os.environ.get("VERIF_TARGET_SUFFIX", "")
    t0 = time.time()
    # Memory classes: harnesses that ask for >= 28 GB ("heavy") run after the light ones, one cargo-kani
    # invocation at a time, with as many CBMC processes as fit into RAM; light ones run with the full job count.
    light, heavy = {}, {}
    for u in sel:
        h = bool(u.mem and u.mem >= 28)  # 24 GB harnesses stay in the light phase (run_crate limits their parallelism)
        (heavy if h else light).setdefault((u.crate, u.env, h), []).append(u)
    runs, results = [], []
    if light:
        with cf.ThreadPoolExecutor(max_workers=len(light)) as ex:
            per = max(1, jobs // len(light))
            futs = {ex.submit(run_crate, c, us, per, mem_gb, tag): (c, us) for c, us in light.items()}
            for f in cf.as_completed(futs):
                c, us = futs[f]
                run = f.result()
                runs.append(run)
                results += interpret(run, us)
    for c, us in heavy.items():
        run = run_crate(c, us, jobs, mem_gb, tag)
        runs.append(run)
        results += interpret(run, us)

    known = load_known()
    violations, inconclusive, known_hits = [], [], []
    for r in sorted(results, key=lambda r: r["harness"]):
        v = r["verdict"]
        if v == "ok":
            log(f"  ok       {r['harness']:55} checks={r['n_checks']:<4} covers={len(r['covers'])} "
                f"solver={r['solver_s']}s wall={r['duration_s']:.1f}s")
        elif v in ("vacuous", "error"):
            log(f"  INCONCLUSIVE {r['harness']}: {r.get('why')}")
            inconclusive.append(r)
        elif v == "fail":
            unlisted = []
            for c in r["fails"]:
                k = known_match(known, prop, r["harness"], c["description"])
                if k:
                    known_hits.append((r, c, k))
                else:
                    unlisted.append(c)
            if not unlisted:
                r["verdict"] = "known"
                continue
            log(f"  FAILED   {r['harness']}: " + "; ".join(c["description"] for c in unlisted))
            if len(violations) >= 2:
                # two counterexamples of this property already reproduced natively: the verdict is settled,
                # extracting and replaying the values of every further failing harness only costs time
                log(f"           (not replayed: {len(violations)} violations of {prop} already reproduced in this run)")
                r["why"] = "assertion failed; not replayed because other counterexamples were already reproduced"
                continue
            rp, reproduced, record = concrete_playback(r["unit"], r["harness"], prop,
                                                       [c["description"] for c in unlisted])
            r["replay"] = rp
            if reproduced:
                violations.append((r, rp))
            else:
                r["why"] = "counterexample did not reproduce natively (see replay file) - harness/stub problem"
                log(f"  INCONCLUSIVE {r['harness']}: {r['why']} {rp}")
                inconclusive.append(r)
    printed = set()
    for r, c, k in known_hits:
        key = (k.get("harness"), k.get("check"))
        if key in printed:
            continue
        printed.add(key)
        log(f"KNOWN-FINDING: property={prop} {k['what']}")
        KNOWN_REPORTED.append({"what": k["what"], "how": "solver: listed assertion failed in " + r["harness"]})
    for k in known:
        if k.get("kind") == "fixed" and k.get("property") == prop and k.get("native_test") and not a.only:
            # regression guard of a repaired defect that has no solver-side detector: native replay of the recorded
            # failing history; PRESENT means the defect is back
            st, detail = native_finding(k["native_test"], "REGRESSION", ("PRESENT", "ABSENT"))
            crate, _, test = k["native_test"].partition(":")
            src = os.path.join(HARNESS_ROOT, crate, "tests", test + ".rs")
            if st == "PRESENT":
                log(f"  FAILED   native regression guard {k['native_test']}: {detail}")
                violations.append(({"harness": "native:" + k["native_test"]}, src))
            else:
                log(f"  guard    {k['native_test']:48} {st}: {detail[:160]}")
            GUARDS.append({"guard": k["native_test"], "result": st, "detail": detail})
    for k in known:
        if k.get("kind") == "finding" and k.get("property") == prop and k.get("native_test") and not a.only:
            st, detail = native_finding(k["native_test"])
            if st == "REPRODUCED":
                log(f"KNOWN-FINDING: property={prop} {k['what']}")
                KNOWN_REPORTED.append({"what": k["what"], "how": "native test " + k["native_test"] + " (no solver-side detector): " + detail})
            else:
                log(f"  note: listed finding not reproduced natively ({st}): {k['what']} {detail}")
    for r, rp in violations:
        log(f"VIOLATION property={prop} replay={rp}")
    wall = time.time() - t0

    if not a.no_evidence and not a.only:  # a partial (--only) run never overwrites the evidence
        write_evidence(prop, a.tier, seed, results, runs, wall, len(violations), inconclusive)
    if violations:
        return 1
    if inconclusive:
        log(f"INCONCLUSIVE property={prop}: {len(inconclusive)} harness(es) undecided")
        return 2
    log(f"PASS property={prop} tier={a.tier} harnesses={len(results)} wall={wall:.0f}s")
    return 0


def write_evidence(prop, tier, seed, results, runs, wall, nviol, inconclusive):
    oks = [r for r in results if r["verdict"] in ("ok", "known")]
    nontrivial = [r for r in results if r["verdict"] == "ok" and r["covers"]]
    samples = []
    encodes, stubs, outside, bounds = set(), set(), [], []
    for r in results:
        u = r.get("unit")
        if u is None:
            continue
        encodes.update(x.strip() for l in u.meta["encodes"] for x in l.split(",") if x.strip())
        stubs.update(x.strip() for l in u.meta["stubs"] for x in l.split(",") if x.strip())
        for l in u.meta["outside"]:
            if l not in outside:
                outside.append(l)
    for r in sorted(results, key=lambda r: r["harness"])[:60]:
        u = r.get("unit")
        samples.append({
            "harness": r["harness"], "verdict": r["verdict"],
            "bounds": " ".join(u.meta["bounds"]) if u else "",
            "oracle": " ".join(u.meta["oracle"]) if u else "",
            "cbmc_properties_checked": r.get("n_checks"),
            "cover_witnesses_satisfied": r.get("covers"),
            "solver_s": r.get("solver_s"), "symex_s": r.get("symex_s"), "wall_s": r.get("duration_s"),
            "vccs": r.get("vccs"), "program_size": r.get("program_size"),
            "why": r.get("why"),
        })
    ev = {
        "property_id": prop, "tier": tier, "seed": seed, "level": "model_checking",
        "coverage": {
            "evaluations": sum(r.get("n_checks") or 0 for r in oks),
            "distinct_nontrivial": len(nontrivial),
            "rule": "evaluations = CBMC properties (assertions, overflow/bounds/unwinding checks) decided over ALL values "
                    "inside the stated bounds by the SAT back end, summed over harnesses; a harness counts as distinct and "
                    "non-trivial only if CBMC returned SUCCESSFUL for every property AND every kani::cover! vacuity witness "
                    "in it was SATISFIED (i.e. the interesting input region is reachable under the assumptions).",
            "samples": samples,
            "harnesses_total": len(results),
            "harnesses_successful": len(oks),
            "harnesses_inconclusive": len(inconclusive),
            "queries": len(results),
            "solver_s": round(sum((r.get("solver_s") or 0) for r in results), 3),
            "functions_encoded": sorted(encodes),
            "stubs": sorted(stubs),
            "outside_claim": outside,
            "engine": "kani 0.68.0 / CBMC 6.11.0 / cadical; goto programs regenerated from /repo working tree on this run",
            "commands": [" ".join(r["cmd"]) for r in runs],
            "known_findings_reported": list(KNOWN_REPORTED),
            "native_regression_guards": list(GUARDS),
            "exhaustive": False,
        },
        "assumptions": [
            "Bounded: each harness states its bounds; unwinding assertions are on, so a too-small bound is a failure, not a silent truncation.",
            "Stubs listed in coverage.stubs are the trusted environment model.",
            "Kani models the dev profile semantics (overflow checks on); threads are outside the technique.",
        ],
        "wall_s": round(wall, 1),
        "violations": nviol,
    }
    os.makedirs(os.path.join(VERIF, "evidence"), exist_ok=True)
    json.dump(ev, open(os.path.join(VERIF, "evidence", f"{prop}.json"), "w"), indent=1)
