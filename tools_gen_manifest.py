#!/usr/bin/env python3
"""Regenerates MANIFEST.json from the per-property table below (single source of truth)."""
import json, os
HERE = os.path.dirname(os.path.abspath(__file__))
CLAIMED = json.load(open(os.path.join(HERE, "claims.json")))
props = [json.loads(l) for l in open(os.path.join(HERE, "properties.jsonl"))]
checks, na = [], []
for p in props:
    pid = p["id"]
    c = CLAIMED.get(pid)
    if c is None or c.get("not_applicable"):
        na.append({"property_id": pid, "reason": (c or {}).get("not_applicable", "not yet built; see DESIGN.md")})
        continue
    checks.append({
        "property_id": pid,
        "quick_cmd": f"./check {pid} --tier quick",
        "thorough_cmd": f"./check {pid} --tier thorough",
        "evidence_file": f"/verif/evidence/{pid}.json",
        "replay_cmd_template": "./check --replay {path}",
        "engine": "kani-cbmc",
        "level_claimed": {"category": "model_checking", "text": c["text"], "design_ref": c.get("design_ref", "DESIGN.md section 3 " + pid)},
        "level_note": c["note"],
        "technique": c.get("technique", "bounded symbolic execution of the compiled Rust code (Kani 0.68 -> CBMC 6.11, cadical SAT back end); counterexamples replayed natively"),
    })
m = {
    "version": 1,
    "setup_cmd": "./setup.sh",
    "hooks": {
        "guard": "cfg(kani)",
        "enable": "set by cargo-kani itself for every crate it compiles (rustc --cfg=kani); never set by plain cargo build/test. One hook (ceeca43) additionally distinguishes cfg(verif_native) INSIDE the cfg(kani) module: set only by the driver's native replay command (--cfg=kani --cfg=verif_native), so that a replayed counterexample uses the tracker's real channel instead of the model queue",
        "baseline_off_cmd": "cd /repo && cargo nextest run --workspace --no-fail-fast --offline || cargo test --workspace --no-fail-fast --offline",
        "source_commits": json.load(open(os.path.join(HERE, "hook_commits.json"))) if os.path.exists(os.path.join(HERE, "hook_commits.json")) else [],
        "add_only": True,
    },
    "engines": [{
        "name": "kani-cbmc", "path": "/verif/check",
        "serves_properties": [c["property_id"] for c in checks],
        "kind_free_text": "Kani 0.68 proof harnesses (crates under /verif/harness, path deps on /repo) decided by CBMC 6.11 + cadical; driver /verif/vlib/driver.py parses --export-json verdicts, enforces vacuity witnesses, replays counterexamples natively in dev and release",
    }],
    "checks": checks,
    "not_applicable": na,
    "notes": "Exit codes of ./check: 0 decided-and-holds, 1 reproduced violation, 2 inconclusive (timeout/OOM/vacuous/unreproduced) - never reported as success. See DESIGN.md.",
}
json.dump(m, open(os.path.join(HERE, "MANIFEST.json"), "w"), indent=1)
print("claimed:", [c["property_id"] for c in checks], "n/a:", [n["property_id"] for n in na])
